"""vmon: runtime monitors, oracles and workloads for numba_scfg (see /verif/DESIGN.md)."""
