"""Witness shrinking (replay files carry a minimal witness where one exists).

graphs : delete nodes / edges while the graph stays a closed CFG and the same
         finding key persists
programs: delta-debugging over the AST (delete statements, unwrap compound
         statements, replace expressions by sub-expressions / constants); every
         candidate is run under the same monitors, which carry their own fuel.
"""
import ast
import copy
import time

from .workloads.graphs import closed_problems


def shrink_graph(g, pred, deadline):
    g = {k: tuple(v) for k, v in g.items()}
    improved = True
    while improved and time.time() < deadline:
        improved = False
        # remove a node (redirect nothing: only if the rest stays closed)
        for k in list(g):
            if time.time() > deadline:
                break
            h = {a: tuple(t for t in b if t != k) for a, b in g.items() if a != k}
            if h and closed_problems(h) is None and pred(h):
                g = h
                improved = True
                break
            # bypass: predecessors jump to k's first successor
            if g[k]:
                s = g[k][0]
                h = {}
                ok = True
                for a, b in g.items():
                    if a == k:
                        continue
                    nb = tuple(dict.fromkeys(s if t == k else t for t in b))
                    h[a] = nb
                if s != k and h and closed_problems(h) is None and pred(h):
                    g = h
                    improved = True
                    break
        if improved:
            continue
        for k in list(g):
            for i in range(len(g[k])):
                if time.time() > deadline:
                    break
                h = dict(g)
                h[k] = g[k][:i] + g[k][i + 1:]
                if closed_problems(h) is None and pred(h):
                    g = h
                    improved = True
                    break
            if improved:
                break
    return g


def _bodies(node):
    for f in ("body", "orelse"):
        b = getattr(node, f, None)
        if isinstance(b, list) and (not b or isinstance(b[0], ast.stmt)):
            yield f, b


def _candidates(tree):
    nodes = list(ast.walk(tree))
    for idx, n in enumerate(nodes):
        for f, b in _bodies(n):
            for i in range(len(b)):
                def rm(t, idx=idx, f=f, i=i):
                    m = list(ast.walk(t))[idx]
                    bb = getattr(m, f)
                    del bb[i]
                    if not bb and f == "body":
                        bb.append(ast.Pass())
                yield rm
                s = b[i]
                if isinstance(s, (ast.If, ast.While, ast.For)):
                    for ff in ("body", "orelse"):
                        def unwrap(t, idx=idx, f=f, i=i, ff=ff):
                            m = list(ast.walk(t))[idx]
                            bb = getattr(m, f)
                            inner = getattr(bb[i], ff)
                            bb[i:i + 1] = inner if inner else [ast.Pass()]
                        yield unwrap
                    if s.orelse:
                        def dropelse(t, idx=idx, f=f, i=i):
                            m = list(ast.walk(t))[idx]
                            getattr(m, f)[i].orelse = []
                        yield dropelse
        if isinstance(n, ast.expr) and not isinstance(n, (ast.Name, ast.Constant)) \
                and not isinstance(getattr(n, "ctx", None), ast.Store):
            subs = [c for c in ast.iter_child_nodes(n) if isinstance(c, ast.expr)
                    and not isinstance(getattr(c, "ctx", None), ast.Store)]
            for j in range(len(subs)):
                def rep(t, idx=idx, j=j):
                    m = list(ast.walk(t))[idx]
                    ss = [c for c in ast.iter_child_nodes(m) if isinstance(c, ast.expr)
                          and not isinstance(getattr(c, "ctx", None), ast.Store)]
                    return ("replace", m, ss[j])
                yield rep

            def const(t, idx=idx):
                m = list(ast.walk(t))[idx]
                return ("replace", m, ast.Constant(1))
            yield const


class _Rep(ast.NodeTransformer):
    def __init__(self, old, new):
        self.old = old
        self.new = new

    def visit(self, n):
        if n is self.old:
            return self.new
        return self.generic_visit(n)


def shrink_source(src, pred, deadline, maxiter=4000):
    cur = ast.parse(src)
    it = 0
    improved = True
    while improved and it < maxiter and time.time() < deadline:
        improved = False
        for c in _candidates(cur):
            it += 1
            if it >= maxiter or time.time() > deadline:
                break
            t = copy.deepcopy(cur)
            try:
                r = c(t)
                if r:
                    _, old, new = r
                    t = _Rep(old, new).visit(t)
                ast.fix_missing_locations(t)
                s2 = ast.unparse(t)
                compile(s2, "<shrink>", "exec")
            except Exception:
                continue
            if len(s2) >= len(ast.unparse(cur)):
                continue
            try:
                ok = pred(s2)
            except Exception:
                ok = False
            if ok:
                cur = ast.parse(s2)
                improved = True
                break
    return ast.unparse(cur)


def shrink_case(check, case, key, budget=60.0):
    """Run inside a worker.  Returns a smaller case with the same finding key,
    or None when the case kind has no shrinker."""
    deadline = time.time() + budget

    def keys_of(c):
        r = check.run_shard({"kind": "single", "case": c, "tier": "quick"})
        return set(r.get("finding_counts", {}))

    if case.get("kind") in ("graph", "astgraph") and "g" in case:
        def pred(g):
            c = dict(case)
            c["g"] = {k: list(v) for k, v in g.items()}
            return key in keys_of(c)
        g = shrink_graph(case["g"], pred, deadline)
        out = dict(case)
        out["g"] = {k: list(v) for k, v in g.items()}
        out.pop("id", None)
        return out
    if case.get("kind") in ("program", "src", "dynsrc") and "src" in case:
        def pred(s):
            c = dict(case)
            c["src"] = s
            return key in keys_of(c)
        s = shrink_source(case["src"], pred, deadline)
        out = dict(case)
        out["src"] = s
        out.pop("id", None)
        return out
    return None
