"""evidence/<id>.json, rewritten on every run (schema: EVIDENCE.schema.json)."""
import json
import os
import platform

from . import core


def build(check, tier, seed, m, wall, known_hits, unknown, inconclusive_reasons):
    from . import runner

    level = check.LEVEL
    cov = {
        "evaluations": int(m["evaluations"]),
        "distinct_nontrivial": len(m["nontrivial"]),
        "rule": check.RULE,
        "samples": m["samples"][:6] or [{"note": "no sample recorded"}],
        "monitor_hits": {k: v for k, v in sorted(m["counters"].items())},
        "maxima": m["maxima"],
        "histograms": {k: dict(sorted(v.items(), key=lambda kv: str(kv[0])))
                       for k, v in m["histograms"].items()},
        "known_finding_hits": dict(known_hits),
        "unlisted_violation_keys": dict(unknown),
        "inconclusive_cases": m["inconclusive_count"],
        "inconclusive_reasons": inconclusive_reasons,
        "inconclusive_samples": m["inconclusive"][:5],
        "failed_shards": len(m["failed_shards"]),
        "exhaustive": bool(getattr(check, "EXHAUSTIVE", False)),
        "repo": runner.repo_state(),
        "interpreter": platform.python_version(),
    }
    if hasattr(check, "coverage_extra"):
        cov.update(check.coverage_extra(m, tier))
    if level == "translation_validation":
        cov.setdefault("programs", int(m["evaluations"]))
        cov.setdefault("disagreements_checked", int(m["counters"].get("comparisons", 0)))
    ev = {
        "property_id": check.PROPERTY,
        "tier": tier,
        "seed": int(seed),
        "level": level,
        "coverage": cov,
        "assumptions": list(getattr(check, "ASSUMPTIONS", [])),
        "wall_s": round(wall, 2),
        "violations": int(sum(unknown.values())),
    }
    return ev


def write(prop, ev):
    d = os.path.join(core.VERIF_DIR, "evidence")
    if os.environ.get("VMON_REPO"):
        # a run against a scratch copy of the repository (seeded changes,
        # mutants) is not evidence about /repo: keep it out of evidence/
        d = os.path.join(core.VERIF_DIR, "out", "evidence_scratch",
                         os.path.basename(os.environ["VMON_REPO"].rstrip("/")))
    os.makedirs(d, exist_ok=True)
    with open(os.path.join(d, prop + ".json"), "w") as f:
        json.dump(core.jsonable(ev), f, indent=1, sort_keys=False)
        f.write("\n")
