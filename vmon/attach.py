"""Attaching monitors to the real numba_scfg code by rebinding attributes.

Guard: environment variable NUMBA_SCFG_VERIF=1 (unset -> install() is a
no-op, nothing in /repo is touched at all).

Monitors are passive: they never change arguments, results or exceptions of
the code they watch; they record into vmon.core.CTX.
"""
import os
import sys
import traceback

from . import core
from .core import Viol, Inconclusive, GUARD

_ORIG = {}
_INSTALLED = set()

# Which stage oracles run at the return of a stage: set by the workload driver.
ACTIVE = set()
# Options for oracles (caps etc.)
OPTS = {"cap": 2_000_000}


def _save(obj, attr):
    key = (id(obj), attr)
    if key not in _ORIG:
        _ORIG[key] = (obj, attr, obj.__dict__[attr] if attr in obj.__dict__ else getattr(obj, attr))
    return _ORIG[key][2]


def uninstall():
    for obj, attr, val in _ORIG.values():
        setattr(obj, attr, val)
    _ORIG.clear()
    _INSTALLED.clear()


def enabled():
    return os.environ.get(GUARD) == "1"


# ------------------------------------------------------------------ tracks

class Track:
    """What M-stage remembers about one top-level SCFG object."""

    def __init__(self, scfg):
        from .hier import plain_graph, is_orig
        from numba_scfg.core.datastructures.basic_block import RegionBlock

        self.scfg = scfg
        self.blocks = dict(scfg.graph)
        # content snapshot of mutable payloads (a list mutated in place keeps
        # its identity)
        self.payload = {k: {f: list(v) for f, v in vars(b).items() if isinstance(v, list)}
                        for k, b in scfg.graph.items()}
        self.orig = plain_graph(scfg)
        self.flat = all(is_orig(b) for b in scfg.graph.values())
        self.has_regions = any(isinstance(b, RegionBlock) for b in scfg.graph.values())
        self.stages = []
        self.joined = False
        self.domain_problem = None
        if self.flat:
            from .workloads.graphs import closed_problems

            self.domain_problem = closed_problems(self.orig)
        else:
            self.domain_problem = "not flat at first sight"
        self.failed = False
        self.stats = {}


def tracks(ctx=None):
    ctx = ctx or core.CTX
    return ctx.data.setdefault("tracks", {})


def track_of(scfg, create=True):
    t = tracks()
    tr = t.get(id(scfg))
    if tr is None and create:
        tr = Track(scfg)
        t[id(scfg)] = tr
        core.CTX.hit("M-stage.tracked")
    return tr


def retrack(old, new):
    """The graph `old` was written out and read back as `new` between two
    stages: M-stage goes on watching the re-read object against the same
    reference model (input graph, input blocks compared by equality)."""
    t = tracks()
    tr = t.pop(id(old), None)
    if tr is None:
        return None
    tr.scfg = new
    tr.payload = {}
    tr.reloaded = getattr(tr, "reloaded", 0) + 1
    t[id(new)] = tr
    core.CTX.hit("M-stage.retracked_after_reload")
    return tr


# ------------------------------------------------------------------ stage oracles

def _lib_frame(tb):
    """innermost frame inside numba_scfg (function name, line, file)."""
    fr = None
    for f, lineno in traceback.walk_tb(tb):
        fn = f.f_code.co_filename
        if "numba_scfg" in fn and "/tests/" not in fn:
            fr = (f.f_code.co_qualname if hasattr(f.f_code, "co_qualname") else f.f_code.co_name,
                  lineno, os.path.basename(fn))
    return fr


def exc_key(e):
    fr = _lib_frame(e.__traceback__)
    return {
        "type": type(e).__name__,
        "site": fr[0] if fr else None,
        "line": fr[1] if fr else None,
        "file": fr[2] if fr else None,
        "text": str(e)[:200],
    }


def run_oracle(ctx, label, fn, *a, **k):
    """Run one oracle; map its outcome onto the context.  Returns stats or None."""
    ctx.hit("oracle." + label)
    try:
        return fn(*a, **k)
    except Viol as v:
        ctx.viol(v)
        ctx.hit("viol." + label)
        return None
    except Inconclusive as i:
        ctx.inconc(label + ":" + i.reason, i.detail)
        return None
    except RecursionError:
        ctx.inconc(label + ":oracle_recursion")
        return None
    except Exception as e:  # an oracle bug is never a verdict about the library
        ctx.inconc(label + ":oracle_crash", traceback.format_exc()[-1500:])
        return None


def stage_oracles(ctx, tr, stage):
    """All hierarchy oracles that are active, at a quiescent point."""
    scfg = tr.scfg
    act = ACTIVE
    cap = OPTS.get("cap", 2_000_000)
    if tr.domain_problem is not None and not OPTS.get("lenient"):
        # not a closed CFG (section 9): C01-C06 say nothing about it
        ctx.hit("M-stage.out_of_domain_skipped")
        return
    # G is a real input graph -> reference-model oracles apply
    full = tr.flat and tr.domain_problem is None
    st = tr.stats.setdefault(stage, {})
    if "C04" in act:
        from .oracles.hierarchy import check_hierarchy

        st["C04"] = run_oracle(ctx, "C04.hierarchy", check_hierarchy, scfg)
    if "C01" in act and full:
        from .oracles.paths import name_walk, region_walk

        st["C01a"] = run_oracle(ctx, "C01.name_walk", name_walk, tr.orig, scfg, cap)
        st["C01b"] = run_oracle(ctx, "C01.region_walk", region_walk, tr.orig, scfg, cap)
        a, b = st["C01a"], st["C01b"]
        if a and b and a.get("orig_reached") != b.get("orig_reached"):
            ctx.violation("C04", "walkers_visit_different_blocks",
                          (a.get("orig_reached"), b.get("orig_reached")))
    if "C05" in act and full:
        from .oracles.conserve import check_conserved

        st["C05"] = run_oracle(
            ctx, "C05.conserve", check_conserved, tr.orig, tr.blocks, scfg, tr.joined,
            tr.payload
        )
    if "C06" in act:
        from .oracles import ctrlvars

        st["C06t"] = run_oracle(ctx, "C06.tables", ctrlvars.check_tables, scfg)
        r = run_oracle(ctx, "C06.exact", ctrlvars.exact, scfg, cap)
        if r is not None:
            probs, stats = r
            st["C06x"] = stats
            for p in probs[:5]:
                ctx.violation("C06", p[0], p[1:])
            if probs:
                ctx.hit("viol.C06.exact")
        if "B" not in tr.stages and "L" in tr.stages:
            flags = run_oracle(ctx, "C06.static", ctrlvars.static_must, scfg)
            if flags:
                ctx.violation("C06", "not_must_assigned_after_loop_stage", flags[:5])
        elif "B" in tr.stages:
            flags = run_oracle(ctx, "C06.static_aux", ctrlvars.static_must, scfg)
            if flags:
                ctx.hit("C06.static_imprecision_after_B")
    if "C03" in act and "B" in tr.stages and "L" in tr.stages:
        from .oracles.structure import check_structured

        st["C03"] = run_oracle(ctx, "C03.structure", check_structured, scfg)
    if OPTS.get("wellformed_only") and stage != "0":
        # workload classes outside the domain of restructuring (pre-declared
        # back edges, parallel arcs): a stage may leave a hierarchy that is not
        # well formed (C04 does not apply to such inputs); C15/C16/C17 are only
        # decided on hierarchies that are
        from .oracles.hierarchy import check_hierarchy

        try:
            check_hierarchy(scfg)
            _members_reachable_from_headers(scfg)
        except Exception:
            ctx.hit("M-stage.skipped_malformed_hierarchy_of_out_of_domain_input")
            return
        ctx.hit("M-stage.wellformed_hierarchy_of_out_of_domain_input")
    if "C16" in act:
        from .oracles.itercheck import check_iteration

        st["C16"] = run_oracle(ctx, "C16.iteration", check_iteration, scfg)
    if "C17" in act:
        from .oracles.dot import check_render

        st["C17"] = run_oracle(ctx, "C17.render", check_render, scfg, ctx.data.get("flow"))
    if "C15" in act:
        from .oracles.serial import check_roundtrip

        st["C15"] = run_oracle(ctx, "C15.roundtrip", check_roundtrip, scfg,
                               OPTS.get("serial_chain", 1))
    for extra in EXTRA_STAGE_ORACLES:
        extra(ctx, tr, stage)


def _members_reachable_from_headers(scfg):
    """every member of every region is reachable from the region's header
    along non-back arcs inside the region, and the top level from its head
    (true of every hierarchy made from a closed CFG; garbage input such as a
    half-declared loop can leave a region whose header is not its head)"""
    from .hier import levels

    for reg, sc in levels(scfg):
        g = sc.graph
        if reg is not None:
            start = reg.header
        else:
            targeted = {t for b in g.values() for t in b.jump_targets}
            heads = [k for k in g if k not in targeted]
            if len(heads) != 1:
                raise ValueError("no unique head")
            start = heads[0]
        if start not in g:
            raise ValueError("header outside region")
        seen = {start}
        st = [start]
        while st:
            for t in g[st.pop()].jump_targets:
                if t in g and t not in seen:
                    seen.add(t)
                    st.append(t)
        if len(seen) != len(g):
            raise ValueError("member not reachable from header")


EXTRA_STAGE_ORACLES = []
PRE_STAGE = {"C16", "C17", "C15"}

_STAGE_CODE = {
    "join_returns": "J",
    "restructure_loop": "L",
    "restructure_branch": "B",
    "restructure": "R",
}


def _wrap_stage(name, fn):
    code = _STAGE_CODE[name]

    def wrapper(self, *a, **k):
        ctx = core.CTX
        ctx.hit("M-stage." + name)
        fresh = id(self) not in tracks(ctx)
        tr = track_of(self)
        if fresh and PRE_STAGE & ACTIVE:
            # quiescent point before the first stage: the input graph itself
            ctx.stage = "0"
            saved = set(ACTIVE)
            ACTIVE.intersection_update(PRE_STAGE)
            try:
                stage_oracles(ctx, tr, "0")
            finally:
                ACTIVE.clear()
                ACTIVE.update(saved)
        prev_stage = ctx.stage
        ctx.stage = "".join(tr.stages) + ">" + code
        depth = ctx.data.get("stage_depth", 0)
        ctx.data["stage_depth"] = depth + 1
        try:
            try:
                r = fn(self, *a, **k)
            except BaseException as e:
                if isinstance(e, (KeyboardInterrupt, SystemExit)) or type(e).__name__ in (
                    "BudgetExceeded",
                ):
                    raise
                if not tr.failed:
                    tr.failed = True
                    key = exc_key(e)
                    key["stage"] = ctx.stage
                    mech = classify_exception(ctx, e, key)
                    ctx.event("M-stage", "exception", key)
                    if "C02" in ACTIVE:
                        if tr.domain_problem is None:
                            ctx.violation("C02", f"exception:{key['type']}@{key['site']}", key,
                                          mech=mech)
                        else:
                            ctx.hit("C02.out_of_domain_exception")
                    ctx.data.setdefault("stage_exceptions", []).append((key, mech))
                raise
            if code == "R":
                return r
            tr.stages.append(code)
            if code == "J":
                tr.joined = True
            ctx.stage = "".join(tr.stages)
            if not tr.failed:
                stage_oracles(ctx, tr, ctx.stage)
            return r
        finally:
            ctx.data["stage_depth"] = depth
            ctx.stage = prev_stage

    wrapper.__name__ = fn.__name__
    wrapper.__doc__ = fn.__doc__
    wrapper.__wrapped__ = fn
    return wrapper


def classify_exception(ctx, e, key):
    """Mechanism witnessed in the trace for an exception out of a stage."""
    last = ctx.data.get("table_last")
    if (
        key["site"]
        and "replace_jump_targets" in key["site"]
        and key["type"] == "AssertionError"
        and last is not None
        and last.get("changed", 0) >= 2
    ):
        return "branch-table-multi-retarget"
    return None


# ------------------------------------------------------------------ M-table

def _wrap_table(fn):
    def replace_jump_targets(self, jump_targets):
        ctx = core.CTX
        ctx.hit("M-table.calls")
        old = self._jump_targets
        changed = sum(1 for a, b in zip(old, jump_targets) if a != b) + abs(
            len(old) - len(jump_targets)
        )
        ctx.data["table_last"] = {"name": self.name, "old": old,
                                  "new": tuple(jump_targets), "changed": changed}
        if changed >= 2:
            ctx.hit("M-table.multi_retarget")
        new = fn(self, jump_targets)
        if "C06" in ACTIVE or "C06T" in ACTIVE:
            from .oracles.ctrlvars import table_contract

            run_oracle(ctx, "C06.table_contract", table_contract, self, jump_targets, new)
        return new

    replace_jump_targets.__wrapped__ = fn
    return replace_jump_targets


# ------------------------------------------------------------------ install

def install(profile=("stage", "table")):
    """Rebind the attributes named by the profile.  No-op without the guard."""
    if not enabled():
        return False
    from numba_scfg.core.datastructures import scfg as scfg_mod
    from numba_scfg.core.datastructures import basic_block as bb

    SCFG = scfg_mod.SCFG
    if "stage" in profile and "stage" not in _INSTALLED:
        for name in _STAGE_CODE:
            orig = _save(SCFG, name)
            setattr(SCFG, name, _wrap_stage(name, orig))
        _INSTALLED.add("stage")
    if "table" in profile and "table" not in _INSTALLED:
        orig = _save(bb.SyntheticBranch, "replace_jump_targets")
        bb.SyntheticBranch.replace_jump_targets = _wrap_table(orig)
        _INSTALLED.add("table")
    for p in profile:
        if p in ("stage", "table") or p in _INSTALLED:
            continue
        mod = __import__("vmon.monitors." + p, fromlist=["install"])
        mod.install(_save)
        _INSTALLED.add(p)
    return True
