"""Walking the region hierarchy through the `graph` dicts only.

The library's own iterators (`SCFG.__iter__`, `ConcealedRegionView`) are under
test in C16 and are never used here.
"""
from numba_scfg.core.datastructures.basic_block import (
    RegionBlock,
    SyntheticBlock,
    SyntheticAssignment,
    SyntheticBranch,
)

from .core import Viol


def all_items(scfg, parent=None, depth=0):
    """yield (name, block, containing SCFG, containing region or None, depth)."""
    for k, b in list(scfg.graph.items()):
        yield k, b, scfg, parent, depth
        if isinstance(b, RegionBlock) and b.subregion is not None:
            yield from all_items(b.subregion, b, depth + 1)


def levels(scfg):
    """yield (region or None, SCFG of that level) for every level."""
    yield None, scfg
    for k, b, sc, par, d in all_items(scfg):
        if isinstance(b, RegionBlock) and b.subregion is not None:
            yield b, b.subregion


def flatten(scfg):
    """-> (leaves, regions) keyed by name; C04 violation on a repeated name."""
    leaves, regions = {}, {}
    dup = []
    for k, b, sc, par, d in all_items(scfg):
        if k != b.name:
            raise Viol("C04", "key_name_mismatch", (k, b.name))
        if k in leaves or k in regions:
            dup.append(k)
        if isinstance(b, RegionBlock):
            regions[k] = b
        else:
            leaves[k] = b
    if dup:
        raise Viol("C04", "duplicate_name", sorted(dup))
    return leaves, regions


def resolve(name, leaves, regions):
    """Follow `header` from a region name down to a leaf name."""
    seen = set()
    while name in regions:
        if name in seen:
            raise Viol("C04", "header_cycle", name)
        seen.add(name)
        name = regions[name].header
    if name not in leaves:
        raise Viol("C04", "dangling_name", name)
    return name


def is_orig(b):
    return not isinstance(b, (SyntheticBlock, RegionBlock))


def containing_regions(scfg):
    """name -> tuple of region names from outermost to innermost container."""
    out = {}

    def rec(sc, chain):
        for k, b in sc.graph.items():
            out[k] = chain
            if isinstance(b, RegionBlock) and b.subregion is not None:
                rec(b.subregion, chain + (k,))

    rec(scfg, ())
    return out


def depth_of(scfg):
    d = 0
    for _, _, _, _, dd in all_items(scfg):
        d = max(d, dd)
    return d


def liveness(leaves, regions):
    """Backward liveness of control variables on the flattened graph.

    use at a branching block, def at an assignment block.  Used only to
    shrink the valuations stored in product states: a dead variable cannot
    influence any later step.
    """
    succ = {}
    for k, b in leaves.items():
        succ[k] = [resolve(t, leaves, regions) for t in b._jump_targets]
    use = {
        k: ({b.variable} if isinstance(b, SyntheticBranch) else set())
        for k, b in leaves.items()
    }
    df = {
        k: (
            set(b.variable_assignment)
            if isinstance(b, SyntheticAssignment)
            else set()
        )
        for k, b in leaves.items()
    }
    live = {k: set(use[k]) for k in leaves}
    pred = {k: [] for k in leaves}
    for k, v in succ.items():
        for t in v:
            pred[t].append(k)
    work = list(leaves)
    inw = set(work)
    while work:
        k = work.pop()
        inw.discard(k)
        out = set()
        for t in succ[k]:
            out |= live[t]
        new = use[k] | (out - df[k])
        if new != live[k]:
            live[k] = new
            for p in pred[k]:
                if p not in inw:
                    inw.add(p)
                    work.append(p)
    return live


def plain_graph(scfg):
    """name -> tuple(_jump_targets) of a flat graph."""
    return {k: tuple(b._jump_targets) for k, b in scfg.graph.items()}


def dump(scfg, with_payload=False):
    """Canonical, insertion-order-keeping dump of a hierarchy (lists, not dicts,
    so that JSON keeps order).  Used by C12/C15 and for replays."""
    out = []
    for k, b in scfg.graph.items():
        rec = [k, type(b).__name__, list(b._jump_targets), list(b.backedges)]
        if isinstance(b, RegionBlock):
            rec.append(
                {
                    "kind": b.kind,
                    "header": b.header,
                    "exiting": b.exiting,
                    "parent": getattr(b.parent_region, "name", None),
                    "sub": dump(b.subregion, with_payload)
                    if b.subregion is not None
                    else None,
                }
            )
        elif isinstance(b, SyntheticBranch):
            rec.append(
                {
                    "variable": b.variable,
                    "table": [[kk, vv] for kk, vv in b.branch_value_table.items()],
                }
            )
        elif isinstance(b, SyntheticAssignment):
            rec.append(
                {"assign": [[kk, vv] for kk, vv in b.variable_assignment.items()]}
            )
        elif with_payload:
            extra = {}
            for f in ("begin", "end"):
                if hasattr(b, f):
                    extra[f] = getattr(b, f)
            if hasattr(b, "tree"):
                import ast

                extra["tree"] = [ast.unparse(n) for n in b.tree]
            rec.append(extra)
        out.append(rec)
    return out
