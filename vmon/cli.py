"""./check <ID> <quick|thorough> [--replay PATH]"""
import argparse
import importlib
import json
import os
import sys

from . import core


def get_check(check_id):
    mod = importlib.import_module("vmon.checks." + check_id.lower())
    return getattr(mod, "CHECK", mod)


def main(argv=None):
    ap = argparse.ArgumentParser()
    ap.add_argument("check")
    ap.add_argument("tier", nargs="?", default=os.environ.get("VERIF_TIER", "quick"))
    ap.add_argument("--replay")
    ap.add_argument("--jobs", type=int)
    a = ap.parse_args(argv)
    try:
        seed = int(os.environ.get("VERIF_SEED", "0"))
    except ValueError:
        seed = 0
    os.makedirs(os.path.join(core.VERIF_DIR, "out"), exist_ok=True)
    check = get_check(a.check.upper())
    if a.replay:
        from . import replay

        return replay.run(check, a.replay)
    if a.tier not in ("quick", "thorough"):
        print("tier must be quick or thorough", file=sys.stderr)
        return 3
    from . import runner

    return runner.run_check(check, a.tier, seed, a.jobs)


if __name__ == "__main__":
    sys.exit(main())
