"""Real-world corpora: standard-library code objects and source functions.

The reference CFG builder below is the harness's *own* (dis/opcode based), so
that graph workloads derived from real bytecode do not depend on the
library's bytecode front end (which is itself under test in C09).
"""
import ast
import dis
import opcode
import os
import sys
import sysconfig
import types

CO_GENERATOR = 0x20
CO_COROUTINE = 0x80
CO_ASYNC_GENERATOR = 0x200
CO_ITERABLE_COROUTINE = 0x100

_SKIP_DIRS = {"test", "tests", "idlelib", "site-packages", "__pycache__", "lib2to3",
              "turtledemo", "ensurepip", "pydoc_data"}


def stdlib_files():
    root = sysconfig.get_paths()["stdlib"]
    out = []
    for dp, dn, fn in os.walk(root):
        dn[:] = sorted(d for d in dn if d not in _SKIP_DIRS)
        for f in sorted(fn):
            if f.endswith(".py"):
                out.append(os.path.join(dp, f))
    return out


def code_objects_of_file(path):
    try:
        with open(path, "rb") as f:
            src = f.read()
        top = compile(src, path, "exec", dont_inherit=True)
    except Exception:
        return
    st = [top]
    while st:
        co = st.pop()
        for c in co.co_consts:
            if isinstance(c, types.CodeType):
                st.append(c)
        if co is not top:
            yield co


UNCOND = {"JUMP_FORWARD", "JUMP_BACKWARD", "JUMP_BACKWARD_NO_INTERRUPT", "JUMP_ABSOLUTE",
          "JUMP", "JUMP_NO_INTERRUPT"} & set(opcode.opmap)
NOFALL = {"RETURN_VALUE", "RETURN_CONST"} & set(opcode.opmap)
RAISERS = {"RAISE_VARARGS", "RERAISE"} & set(opcode.opmap)
GENOPS = {"YIELD_VALUE", "RETURN_GENERATOR", "SEND", "GET_AWAITABLE", "GET_AITER",
          "GET_ANEXT", "BEFORE_ASYNC_WITH", "END_ASYNC_FOR", "ASYNC_GEN_WRAP",
          "GEN_START", "YIELD_FROM", "SETUP_FINALLY", "SETUP_WITH", "SETUP_ASYNC_WITH",
          "BEFORE_WITH", "PUSH_EXC_INFO", "POP_EXCEPT", "CHECK_EXC_MATCH",
          "CLEANUP_THROW", "WITH_EXCEPT_START"} & set(opcode.opmap)
JUMPS = set(opcode.hasjrel) | set(opcode.hasjabs)


def eligible(co):
    """A *function* (incl. lambdas and comprehensions; not a class body or
    module) without exception handlers, raises, or generator suspension points."""
    if not (co.co_flags & 0x1):  # CO_OPTIMIZED: function-like code object
        return False
    if co.co_flags & (CO_GENERATOR | CO_COROUTINE | CO_ASYNC_GENERATOR | CO_ITERABLE_COROUTINE):
        return False
    if getattr(co, "co_exceptiontable", b""):
        return False
    for ins in dis.get_instructions(co):
        if ins.opname in RAISERS or ins.opname in GENOPS:
            return False
    return True


def reference_blocks(co):
    """Ground truth from dis/opcode of the running interpreter.

    -> (instructions, leaders(sorted offsets), succ: leader -> tuple(leaders))
    """
    ins = list(dis.get_instructions(co))
    offs = [i.offset for i in ins]
    nxt = {a: b for a, b in zip(offs, offs[1:])}
    leaders = {offs[0]}
    for i in ins:
        if i.opcode in JUMPS:
            leaders.add(i.argval)
            if i.offset in nxt:
                leaders.add(nxt[i.offset])
        elif i.opname in NOFALL:
            if i.offset in nxt:
                leaders.add(nxt[i.offset])
    leaders = sorted(leaders)
    lset = set(leaders)
    succ = {}
    cur = None
    last = None
    for i in ins:
        if i.offset in lset:
            if cur is not None:
                succ[cur] = _succ_of(last, nxt)
            cur = i.offset
        last = i
    succ[cur] = _succ_of(last, nxt)
    return ins, leaders, succ


def _succ_of(last, nxt):
    if last.opname in NOFALL:
        return ()
    if last.opcode in JUMPS:
        if last.opname in UNCOND:
            return (last.argval,)
        ft = nxt.get(last.offset)
        if ft is None:
            return (last.argval,)
        if ft == last.argval:
            return (ft,)
        return (ft, last.argval)
    ft = nxt.get(last.offset)
    return (ft,) if ft is not None else ()


def reference_cfg(co):
    """name -> successors, names 'b<offset>', in offset order."""
    ins, leaders, succ = reference_blocks(co)
    return {f"b{o}": tuple(f"b{t}" for t in succ[o]) for o in leaders}


def stdlib_code_shard(shard, nshards, limit_files=None):
    files = stdlib_files()
    if limit_files:
        files = files[:limit_files]
    for idx, path in enumerate(files):
        if idx % nshards != shard:
            continue
        for co in code_objects_of_file(path):
            yield path, co


# ---------------------------------------------------------------- source corpus

SUPPORTED_STMTS = (ast.Assign, ast.AugAssign, ast.Expr, ast.Return, ast.Pass, ast.Break,
                   ast.Continue, ast.If, ast.While, ast.For)


def in_subset(fn):
    """Every statement of fn (any depth) is one of the supported ten; no yield,
    await, lambda-with-walrus games are filtered only as far as they change
    what kind of function this is."""
    for node in ast.walk(fn):
        if node is fn:
            continue
        if isinstance(node, ast.stmt) and not isinstance(node, SUPPORTED_STMTS):
            return False
        if isinstance(node, (ast.Yield, ast.YieldFrom, ast.Await, ast.NamedExpr)):
            return False
    if not fn.body:
        return False
    return True


def stdlib_source_functions(shard, nshards, limit_files=None):
    files = stdlib_files()
    if limit_files:
        files = files[:limit_files]
    for idx, path in enumerate(files):
        if idx % nshards != shard:
            continue
        try:
            with open(path, "rb") as f:
                tree = ast.parse(f.read())
        except Exception:
            continue
        for node in ast.walk(tree):
            if isinstance(node, ast.FunctionDef) and in_subset(node):
                n2 = ast.FunctionDef(name=node.name, args=node.args, body=node.body,
                                     decorator_list=[], returns=None, type_comment=None,
                                     type_params=[], lineno=1, col_offset=0)
                try:
                    src = ast.unparse(ast.fix_missing_locations(n2))
                except Exception:
                    continue
                yield path, node.name, src
