"""Grammar-based generator of functions f(a, b) in the supported statement subset.

Histories are made unambiguous: every operand / simple statement can carry a
unique id through calls to three external functions supplied by the harness
    ext(id, v)  logs (id, repr(v)), returns v
    d(id)       logs and returns the next bit of a decision tape
    it(id, n)   logs, returns list(range(n)) (or the object passed)
so the call log *is* the operand trace.

Classes (DESIGN section 4):
  core    avoids the known front-end mechanisms (nested and/or, for-targets live
          after a loop, all-empty arms, loop as first statement)
  oracle  every if/while test is d(id) (optionally `d(id) and e`): all paths are
          enumerated by the tape
  deep    nesting depth 4-6, elif chains, returns in every arm
  expr    arbitrary tests and expressions (attribute, subscript, call, not,
          constants, chained comparisons, and/or anywhere incl. call arguments)
  loop    while/else, for/else, break/continue at depth, loop first, for-targets
          live after the loop, empty iterables, shared targets, names next/iter
  empty   if arms / loop bodies consisting only of pass/break/continue
  dead    statements (simple and compound) that follow a return / break /
          continue in the same suite: unreachable code that must not change
          where the terminator leaves to
  chains  long flat and/or chains (3-7 operands of decisions, logged values and
          names) as tests of if/while, assigned and returned values: every
          short-circuit position is a decision path
  forms   the less common spellings of supported statements: for-targets that
          are tuples / starred / nested / subscripts / attributes (with calls
          in the target), chained and destructuring assignments, subscript and
          attribute stores, bare return, constant expression statements,
          docstrings, `while True`, signatures with defaults / *args /
          keyword-only / positional-only / annotations / **kw, expressions
          with lambda, comprehensions, conditional expressions, walrus,
          f-strings, starred calls
"""
import ast
import random


class Cfg:
    def __init__(self, **kw):
        self.tests = "core"  # core | oracle | expr
        self.nested_boolop = False
        self.empty_arms = False
        self.loop_first = False
        self.for_target_live = False
        self.maxdepth = 3
        self.maxstmts = 4
        self.elif_p = 0.25
        self.return_everywhere = False
        self.shadow_builtins = False
        self.objs = False
        self.dead_code = False
        self.forms = False
        self.chains = False
        self.__dict__.update(kw)


CLASSES = {
    "core": Cfg(),
    "oracle": Cfg(tests="oracle"),
    "deep": Cfg(maxdepth=5, maxstmts=3, elif_p=0.5, return_everywhere=True),
    "expr": Cfg(tests="expr", nested_boolop=True, objs=True),
    "loop": Cfg(loop_first=True, for_target_live=True, shadow_builtins=True),
    "empty": Cfg(empty_arms=True),
    "boolnest": Cfg(nested_boolop=True),
    "dead": Cfg(dead_code=True),
    "forms": Cfg(forms=True),
    "chains": Cfg(chains=True, maxdepth=2, maxstmts=3),
}


class PG:
    def __init__(self, rng, cfg):
        self.r = rng
        self.c = cfg
        self.k = 0
        self.vars = ["a", "b", "x", "y"]
        self.loopvars = []

    def uid(self):
        self.k += 1
        return self.k

    # ---------------------------------------------------------------- expressions
    def names(self):
        return self.vars + self.loopvars

    def atom(self):
        c = self.r.random()
        if c < 0.3:
            return self.r.choice(self.names())
        if c < 0.45:
            return str(self.r.randint(0, 3))
        if c < 0.8:
            return f"ext({self.uid()}, {self.r.choice(self.names() + ['0', '1', '2'])})"
        return f"d({self.uid()})"

    def expr(self, depth=0):
        c = self.r.random()
        if depth >= 2 or c < 0.4:
            return self.atom()
        if c < 0.58:
            return f"{self.expr(depth + 1)} {self.r.choice(['+', '-', '*'])} {self.expr(depth + 1)}"
        if c < 0.74:
            return f"({self.expr(depth + 1)} {self.r.choice(['<', '==', '!=', '>='])} {self.expr(depth + 1)})"
        if c < 0.8:
            return f"(not {self.expr(depth + 1)})"
        if c < 0.88:
            return f"ext({self.uid()}, {self.expr(depth + 1)})"
        if self.c.nested_boolop:
            n = self.r.choice([2, 2, 3])
            op = self.r.choice([" and ", " or "])
            return "(" + op.join(self.expr(depth + 1) for _ in range(n)) + ")"
        if self.c.tests == "expr":
            return self.exotic()
        if self.c.forms:
            return self.formexpr()
        return self.atom()

    def formexpr(self):
        """expression kinds with their own scopes / binding rules"""
        c = self.r.random()
        v = self.r.choice(self.names())
        if c < 0.15:
            return f"(lambda z: ext({self.uid()}, z) + {v})({self.atom()})"
        if c < 0.3:
            return f"sum([ext({self.uid()}, z) for z in it({self.uid()}, 2) if z != {v}])"
        if c < 0.38:
            return f"({self.atom()} if {self.atom()} else {self.atom()})"
        if c < 0.45:
            # and/or inside the arms / the test of a conditional expression: only
            # the selected arm may be evaluated
            op = self.r.choice([" and ", " or "])
            arm = lambda: "(" + op.join(self.chain_atom() for _ in range(self.r.choice([2, 3]))) + ")"
            return self.r.choice([
                f"({arm()} if {self.atom()} else {self.atom()})",
                f"({self.atom()} if {self.atom()} else {arm()})",
                f"({arm()} if {arm()} else {arm()})",
                f"(ext({self.uid()}, 1 // {v}) if {v} else {arm()})",
            ])
        if c < 0.6:
            return f"(w := {self.atom()}) + w"
        if c < 0.7:
            return f"len(f'{{{self.atom()}}}-{{{v}!r}}')"
        if c < 0.8:
            return f"max(*[{self.atom()}, {self.atom()}])"
        if c < 0.9:
            return f"len({{z: {v} for z in it({self.uid()}, 2)}})"
        return f"[{self.atom()}, {self.atom()}][ext({self.uid()}, 1)]"

    def exotic(self):
        c = self.r.random()
        if c < 0.25:
            return f"{self.r.choice(['a', 'b'])}.v"
        if c < 0.45:
            return f"{self.r.choice(['a', 'b'])}[{self.r.randint(0, 1)}]"
        if c < 0.6:
            return f"({self.atom()} < {self.atom()} <= {self.atom()})"
        if c < 0.75:
            return f"ext({self.uid()}, {self.atom()}, {self.atom()})"
        if c < 0.85:
            return f"-{self.atom()}"
        return f"({self.atom()} if {self.atom()} else {self.atom()})"

    def rootexpr(self):
        """value of an assignment / return: and/or allowed at the root."""
        if self.r.random() < (0.7 if self.c.chains else 0.3):
            op = self.r.choice([" and ", " or "])
            n = self.r.choice([2, 2, 3, 3, 4, 5, 6, 7] if self.c.chains else [2, 2, 3, 4])
            if self.c.chains:
                if self.r.random() < 0.2:
                    a = op.join(self.chain_atom() for _ in range(self.r.choice([2, 3])))
                    b = op.join(self.chain_atom() for _ in range(self.r.choice([2, 3])))
                    return f"({a}) if {self.chain_atom()} else ({b})"
                return op.join(self.chain_atom() for _ in range(n))
            if self.c.nested_boolop:
                return op.join(self.expr(1) for _ in range(n))
            return op.join(self.atom() for _ in range(n))
        return self.expr()

    def chain_atom(self):
        """operand of a long flat and/or: a decision, a logged value or a name"""
        c = self.r.random()
        if c < 0.5:
            return f"d({self.uid()})"
        if c < 0.8:
            return f"ext({self.uid()}, {self.r.choice(self.names() + ['0', '1', '2'])})"
        return self.r.choice(self.names())

    def test(self):
        t = self.c.tests
        if self.c.chains and self.r.random() < 0.6:
            op = self.r.choice([" and ", " or "])
            return op.join(self.chain_atom() for _ in range(self.r.choice([3, 4, 4, 5, 6, 7])))
        if t == "oracle":
            if self.r.random() < 0.7:
                return f"d({self.uid()})"
            return f"d({self.uid()}) and {self.atom()}"
        c = self.r.random()
        if self.c.empty_arms and self.r.random() < 0.3:
            # call-free tests that raise for some arguments (division by zero,
            # subscript of an int): a dropped test is then observable
            return self.r.choice([
                f"1 // {self.r.choice(self.names())}",
                f"{self.r.choice(self.names())} % {self.r.choice(self.names())}",
                f"{self.r.choice(['a', 'b'])}[0]",
                f"x // {self.r.choice(['a', 'b'])} == 1",
            ])
        if t == "expr":
            if c < 0.15:
                return self.exotic()
            if c < 0.25:
                return f"not {self.r.choice(self.names())}"
            if c < 0.33:
                return str(self.r.randint(0, 2))
            if c < 0.45:
                return f"ext({self.uid()}, {self.r.choice(self.names())})"
            if c < 0.55:
                return self.expr(0)
        if c < 0.3:
            return self.r.choice(self.names())
        if c < 0.45:
            return f"d({self.uid()}) == 1"
        if c < 0.75:
            return f"{self.expr(1)} {self.r.choice(['<', '==', '!=', '>='])} {self.expr(1)}"
        op = self.r.choice([" and ", " or "])
        return op.join(self.atom() for _ in range(self.r.choice([2, 3, 4])))

    def looptest(self):
        c = self.r.random()
        if self.c.chains and c < 0.5:
            op = self.r.choice([" and ", " or "])
            return op.join([f"d({self.uid()})"] + [self.chain_atom() for _ in range(self.r.choice([2, 3, 4, 5]))])
        if self.c.tests == "oracle":
            return f"d({self.uid()})"
        if c < 0.5:
            return f"d({self.uid()}) == 1"
        if c < 0.75:
            return f"d({self.uid()}) and {self.atom()}"
        return f"{self.atom()} and d({self.uid()})"

    # ---------------------------------------------------------------- statements
    def nonempty(self, depth, inloop, ind):
        b = self.block(depth, inloop, ind)
        if not self.c.empty_arms:
            if all(l.strip() in ("pass", "break", "continue") for l in b):
                b = [" " * ind + f"ext({self.uid()}, 0)"] + b
        return b

    def block(self, depth, inloop, ind):
        out = []
        if self.c.empty_arms and self.r.random() < 0.3:
            return [" " * ind + self.r.choice(["pass"] + (["break", "continue"] if inloop else []))]
        for _ in range(self.r.randint(1, self.c.maxstmts)):
            out += self.stmt(depth, inloop, ind)
            if out[-1].strip().startswith(("return", "break", "continue")):
                if self.c.dead_code and self.r.random() < 0.6:
                    # unreachable statements behind the terminator (same suite)
                    for _ in range(self.r.randint(1, 2)):
                        out += self.stmt(depth + 1, inloop, ind)
                break
        if self.c.return_everywhere and not out[-1].strip().startswith(
                ("return", "break", "continue")) and self.r.random() < 0.5:
            out.append(" " * ind + f"return {self.rootexpr()}")
        return out

    def stmt(self, depth, inloop, ind):
        p = " " * ind
        c = self.r.random()
        if depth >= self.c.maxdepth:
            c *= 0.5
        if self.c.forms and self.r.random() < 0.35:
            return self.formstmt(p, inloop)
        if c < 0.2:
            return [f"{p}{self.r.choice(self.vars)} = {self.rootexpr()}"]
        if c < 0.3:
            return [f"{p}{self.r.choice(['x', 'y'])} {self.r.choice(['+=', '-='])} {self.expr(1)}"]
        if c < 0.4:
            return [f"{p}ext({self.uid()}, {self.expr(1)})"]
        if c < 0.44:
            return [f"{p}pass"]
        if c < 0.5:
            if inloop and self.r.random() < 0.6:
                return [p + self.r.choice(["break", "continue"])]
            return [f"{p}return {self.rootexpr()}"] if self.r.random() < 0.8 else [f"{p}return"]
        if c < 0.72:
            out = [f"{p}if {self.test()}:"] + self.nonempty(depth + 1, inloop, ind + 4)
            while self.r.random() < self.c.elif_p:
                out += [f"{p}elif {self.test()}:"] + self.nonempty(depth + 1, inloop, ind + 4)
            if self.r.random() < 0.6:
                out += [f"{p}else:"] + self.nonempty(depth + 1, inloop, ind + 4)
            return out
        if c < 0.86:
            return self.while_stmt(depth, inloop, ind)
        return self.for_stmt(depth, inloop, ind)

    def formstmt(self, p, inloop):
        c = self.r.random()
        if c < 0.12:
            return [f"{p}x = y = {self.rootexpr()}"]
        if c < 0.24:
            return [f"{p}x, y = {self.expr(1)}, {self.expr(1)}"]
        if c < 0.34:
            return [f"{p}x, *l[0:1] = {self.atom()}, {self.atom()}"]
        if c < 0.46:
            return [f"{p}l[ext({self.uid()}, {self.r.randint(0, 1)})] = {self.rootexpr()}"]
        if c < 0.56:
            return [f"{p}o.v {self.r.choice(['=', '+=', '-='])} {self.expr(1)}"]
        if c < 0.64:
            return [f"{p}l[{self.r.randint(0, 1)}] += {self.expr(1)}"]
        if c < 0.72:
            return [f"{p}{self.r.choice(['1', chr(39) + 's' + chr(39), '...', 'None', 'x', '(x, y)'])}"]
        if c < 0.8:
            return [f"{p}return"]
        if c < 0.9:
            return [f"{p}x = {self.formexpr()}"]
        return [f"{p}ext({self.uid()}, l, o.v)"]

    def while_stmt(self, depth, inloop, ind):
        p = " " * ind
        if self.c.forms and self.r.random() < 0.3:
            # constant test: the only way out is break / return
            body = self.nonempty(depth + 1, True, ind + 4)
            t = self.r.choice(["True", "1", "not 0", "'s'"])
            return ([f"{p}while {t}:", f"{p}    if not d({self.uid()}):", f"{p}        break"]
                    + body)
        out = [f"{p}while {self.looptest()}:"] + self.nonempty(depth + 1, True, ind + 4)
        if self.r.random() < 0.3:
            out += [f"{p}else:"] + self.nonempty(depth + 1, inloop, ind + 4)
        return out

    def for_stmt(self, depth, inloop, ind):
        p = " " * ind
        if self.c.for_target_live and self.r.random() < 0.5:
            tv = self.r.choice(["x", "y", "i0"])
            scoped = False
        else:
            tv = f"i{len(self.loopvars)}"
            scoped = True
        n = self.r.choice(["0", "1", "2", "3", "a"])
        if self.c.nested_boolop and self.r.random() < 0.3:
            n = self.r.choice(["a or 2", "a and b", "ext(%d, a) or 1" % self.uid()])
        head = f"{p}for {tv} in it({self.uid()}, {n}):"
        if self.c.forms and self.r.random() < 0.6:
            # targets that are not a plain name
            scoped = False
            pairs = self.r.choice(["[]", "[(0, a)]", "[(0, a), (b, 1)]", "[(1, 2), (a, b), (3, 4)]"])
            c = self.r.random()
            if c < 0.3:
                tv = self.r.choice(["x, y", "(x, y)", "[x, y]", "i0, y"])
            elif c < 0.4:
                tv = "x, *y"
            elif c < 0.5:
                tv = "x, (y, i0)"
                pairs = self.r.choice(["[]", "[(0, (a, 1))]", "[(0, (a, 1)), (b, (2, 3))]"])
            elif c < 0.65:
                tv = f"l[{self.r.randint(0, 1)}]"
                pairs = n
            elif c < 0.8:
                tv = f"l[ext({self.uid()}, {self.r.randint(0, 1)})]"
                pairs = n
            elif c < 0.9:
                tv = "o.v"
                pairs = n
            else:
                tv = f"ext({self.uid()}, o).v"
                pairs = n
            head = f"{p}for {tv} in it({self.uid()}, {pairs}):"
        if scoped:
            self.loopvars.append(tv)
        body = self.nonempty(depth + 1, True, ind + 4)
        if scoped:
            self.loopvars.pop()
        out = [head] + body
        if self.r.random() < 0.3:
            out += [f"{p}else:"] + self.nonempty(depth + 1, inloop, ind + 4)
        return out

    def func(self):
        args = "a, b"
        body = []
        if self.c.shadow_builtins and self.r.random() < 0.3:
            # a parameter / local called like the builtins the for-lowering reads
            args = self.r.choice(["a, b, next=3", "a, b, iter=4"])
            self.vars = self.vars + [args.split(", ")[2].split("=")[0]]
        if self.c.forms:
            args = self.r.choice([
                "a, b", "a, b=3", "a, b, *rest", "a, b=1, *rest, k=ext(0, 5)", "a, /, b", "a, b, *, k=2",
                "a: int, b: 'str' = 2", "a, b, **kw", "a, b=ext(0, 1), *rest, k=4, **kw"])
            if "k=" in args:
                self.vars = self.vars + ["k"]
            if self.r.random() < 0.3:
                body += ['    """docstring of f"""']
            body += ["    l = [a, b]", "    o = type('O', (), {'__repr__': lambda s: 'O'})()", "    o.v = a"]
        if self.c.loop_first and self.r.random() < 0.4:
            saved = self.vars
            self.vars = [v for v in self.vars if v not in ("x", "y")]
            body += (self.while_stmt(0, False, 4) if self.r.random() < 0.5
                     else self.for_stmt(0, False, 4))
            self.vars = saved
            body += ["    x = 0", "    y = 1"]
        else:
            body += [f"    x = ext({self.uid()}, 0)", "    y = 1"]
        if self.c.for_target_live:
            body += ["    i0 = 7"]
        for _ in range(self.r.randint(1, self.c.maxstmts)):
            body += self.stmt(0, False, 4)
            if body[-1].strip().startswith("return"):
                if self.c.dead_code and self.r.random() < 0.5:
                    body += self.stmt(1, False, 4)
                break
        if not body[-1].strip().startswith("return") and self.r.random() < 0.7:
            body.append(f"    return {self.rootexpr()}")
        return f"def f({args}):\n" + "\n".join(body) + "\n"


def make_program(cls, seed, index):
    rng = random.Random(f"prog/{cls}/{seed}/{index}")
    for _ in range(20):
        src = PG(rng, CLASSES[cls]).func()
        try:
            compile(src, "<gen>", "exec")
        except SyntaxError:
            continue
        if len(src) < 6000:
            return src
    return "def f(a, b):\n    x = ext(1, a)\n    return x\n"


class Obj:
    """argument object with attributes and __getitem__ (class expr)."""

    def __init__(self, v, w):
        self.v = v
        self.w = w

    def __getitem__(self, i):
        return (self.v, self.w)[i]

    def __repr__(self):
        return f"Obj({self.v!r}, {self.w!r})"

    def __eq__(self, o):
        return isinstance(o, Obj) and (self.v, self.w) == (o.v, o.w)

    def __hash__(self):
        return hash((self.v, self.w))


def arg_tuples(cls):
    if cls == "expr":
        return [(Obj(1, 0), Obj(0, 2)), ([1, 0], Obj(2, 2)), (Obj(0, 0), [0, 3])]
    return [(0, 1), (2, 0), (3, 3)]


# ---------------------------------------------------------------- static features

def features(src):
    """Static facts about a program (used for evidence only, never for verdicts)."""
    t = ast.parse(src)
    f = {"stmts": 0, "ifs": 0, "whiles": 0, "fors": 0, "boolops": 0, "depth": 0,
         "returns": 0, "breaks": 0, "continues": 0, "loop_else": 0}

    def rec(node, depth):
        for ch in ast.iter_child_nodes(node):
            if isinstance(ch, ast.stmt):
                f["stmts"] += 1
                f["depth"] = max(f["depth"], depth)
            if isinstance(ch, ast.If):
                f["ifs"] += 1
            elif isinstance(ch, ast.While):
                f["whiles"] += 1
                f["loop_else"] += 1 if ch.orelse else 0
            elif isinstance(ch, ast.For):
                f["fors"] += 1
                f["loop_else"] += 1 if ch.orelse else 0
            elif isinstance(ch, ast.BoolOp):
                f["boolops"] += 1
            elif isinstance(ch, ast.Return):
                f["returns"] += 1
            elif isinstance(ch, ast.Break):
                f["breaks"] += 1
            elif isinstance(ch, ast.Continue):
                f["continues"] += 1
            rec(ch, depth + (1 if isinstance(ch, (ast.If, ast.While, ast.For)) else 0))

    rec(t, 0)
    return f
