"""Graph workloads for the restructuring core (DESIGN section 4 and 9).

Every generator returns plain dicts  name -> tuple(successor names)  that are
*closed CFGs* (section 9): one entry, everything reachable from it and able
to reach an exit, <= 2 ordered distinct successors.  `assert_closed` is run
on every graph before it is handed to the library; a generator bug is an
error of the run, not a violation.
"""
import collections
import itertools
import random
import re


def closed_problems(g, max_succ=2):
    """Return a reason string if g is not a closed CFG, else None."""
    if not g:
        return "empty"
    targeted = set()
    for k, v in g.items():
        if len(v) > max_succ:
            return f"arity {k}"
        if len(set(v)) != len(v):
            return f"duplicate successors {k}"
        for t in v:
            if t not in g:
                return f"dangling {k}->{t}"
            targeted.add(t)
    ents = [k for k in g if k not in targeted]
    if len(ents) != 1:
        return f"entries {ents}"
    seen = {ents[0]}
    st = [ents[0]]
    while st:
        x = st.pop()
        for y in g[x]:
            if y not in seen:
                seen.add(y)
                st.append(y)
    if len(seen) != len(g):
        return "unreachable blocks"
    exits = [k for k, v in g.items() if not v]
    if not exits:
        return "no exit"
    rev = collections.defaultdict(set)
    for k, v in g.items():
        for y in v:
            rev[y].add(k)
    s2 = set(exits)
    st = list(exits)
    while st:
        x = st.pop()
        for y in rev[x]:
            if y not in s2:
                s2.add(y)
                st.append(y)
    if len(s2) != len(g):
        return "block cannot reach an exit"
    return None


def is_closed(g):
    return closed_problems(g) is None


def assert_closed(g):
    p = closed_problems(g)
    if p is not None:
        raise AssertionError(f"generator produced a non-closed CFG: {p}: {g}")


# ---------------------------------------------------------------- exhaustive

def _succ_options(n):
    """All successor tuples for a node of an n-node graph (entry '0' has no
    predecessors, so targets range over 1..n-1)."""
    names = [str(i) for i in range(1, n)]
    opts = [()]
    opts += [(a,) for a in names]
    opts += [(a, b) for a in names for b in names if a != b]
    return opts


def exhaustive_count_raw(n):
    return len(_succ_options(n)) ** n


def exhaustive(n, shard=0, nshards=1):
    """Every closed CFG on nodes '0'..'n-1' with entry '0' (labelled graphs).

    Sharded on the index of the raw enumeration so that shards are disjoint
    and their union is the whole space."""
    opts = _succ_options(n)
    names = [str(i) for i in range(n)]
    if n == 1:
        if shard == 0:
            yield {"0": ()}
        return
    # shard over the choice for the first two nodes
    firsts = list(itertools.product(opts, repeat=min(2, n)))
    for idx, pre in enumerate(firsts):
        if idx % nshards != shard:
            continue
        if not pre[0]:
            continue  # entry without successors and n > 1: unreachable rest
        for rest in itertools.product(opts, repeat=n - len(pre)):
            g = dict(zip(names, pre + rest))
            if closed_problems(g) is None:
                yield g


def exhaustive_sample(n, rng, count):
    """Uniform raw samples filtered to closed CFGs (for n beyond enumeration)."""
    opts = _succ_options(n)
    names = [str(i) for i in range(n)]
    out = 0
    tries = 0
    while out < count and tries < count * 400:
        tries += 1
        g = {nm: rng.choice(opts) for nm in names}
        if closed_problems(g) is None:
            out += 1
            yield g


# ---------------------------------------------------------------- random

def rand_closed(rng, n, p2=0.5, pexit=0.15):
    names = [str(i) for i in range(n)]
    cands = names[1:]
    for _ in range(400):
        g = {}
        for i, nm in enumerate(names):
            r = rng.random()
            if r < pexit and i != 0:
                g[nm] = ()
            elif rng.random() < p2 and len(cands) >= 2:
                g[nm] = tuple(rng.sample(cands, 2))
            elif cands:
                g[nm] = (rng.choice(cands),)
            else:
                g[nm] = ()
        if closed_problems(g) is None:
            return g
    return None


def cons_cfg(rng, n, p2=0.5, nexit=None):
    """Constructive: arborescence from 0, extra edges, repair towards exits."""
    names = [str(i) for i in range(n)]
    succ = {k: [] for k in names}
    order = names[1:]
    rng.shuffle(order)
    placed = ["0"]
    for k in order:
        cands = [p for p in placed if len(succ[p]) < 2]
        p = rng.choice(cands)
        succ[p].append(k)
        placed.append(k)
    lv = [k for k in names if not succ[k] and k != "0"]
    if not lv:
        lv = [names[-1]]
    nexit = nexit or max(1, min(len(lv), rng.randint(1, 3)))
    exits = set(rng.sample(lv, min(nexit, len(lv))))
    for k in names:
        if k in exits:
            continue
        want = 2 if rng.random() < p2 else 1
        tries = 0
        while len(succ[k]) < want and tries < 10:
            tries += 1
            t = rng.choice(names[1:])
            if t not in succ[k]:
                succ[k].append(t)
        if not succ[k]:
            t = rng.choice([x for x in names[1:] if x != k] or names[1:])
            succ[k].append(t)

    def reach_exit():
        rev = collections.defaultdict(set)
        for k, v in succ.items():
            for y in v:
                rev[y].add(k)
        s = set(exits)
        st = list(exits)
        while st:
            x = st.pop()
            for y in rev[x]:
                if y not in s:
                    s.add(y)
                    st.append(y)
        return s

    for _ in range(3 * n):
        s = reach_exit()
        bad = [k for k in names if k not in s]
        if not bad:
            break
        k = rng.choice(bad)
        t = rng.choice(sorted(s - {"0"}) or sorted(exits))
        if len(succ[k]) < 2 and t not in succ[k]:
            succ[k].append(t)
        else:
            succ[k][rng.randrange(len(succ[k]))] = t if t not in succ[k] else succ[k][0]
        succ[k] = list(dict.fromkeys(succ[k]))
    g = {k: tuple(v) for k, v in succ.items()}
    if closed_problems(g) is not None:
        return None
    return g


def loop_hostile(rng):
    """SCC core with m entries from distinct outside blocks, e exits, chords."""
    c = rng.randint(2, 7)
    m = rng.randint(1, min(3, c))
    e = rng.randint(1, 3)
    core = [f"c{i}" for i in range(c)]
    g = collections.OrderedDict()
    heads = rng.sample(core, m)
    disp = []

    def tree(ts):
        if len(ts) == 1:
            return ts[0]
        nm = f"d{len(disp)}"
        disp.append(nm)
        g[nm] = None
        mid = len(ts) // 2
        g[nm] = (tree(ts[:mid]), tree(ts[mid:]))
        return nm

    root = tree(heads)
    g2 = {"E": (root,)}
    for k, v in g.items():
        g2[k] = v
    outs = [f"x{i}" for i in range(e)]
    succ = {k: [] for k in core}
    perm = core[:]
    rng.shuffle(perm)
    for a, b in zip(perm, perm[1:] + perm[:1]):
        succ[a].append(b)
    for o in outs:
        cands = [k for k in core if len(succ[k]) < 2]
        if not cands:
            break
        succ[rng.choice(cands)].append(o)
    for k in core:
        if len(succ[k]) < 2 and rng.random() < 0.5:
            t = rng.choice(core)
            if t not in succ[k]:
                succ[k].append(t)
    used = [o for o in outs if any(o in v for v in succ.values())]
    if not used:
        return None
    for k in core:
        rng.shuffle(succ[k])
        g2[k] = tuple(succ[k])
    for i, o in enumerate(used):
        r = rng.random()
        if r < 0.4 or i == len(used) - 1:
            g2[o] = ("R",) if rng.random() < 0.7 else ()
        else:
            g2[o] = (used[i + 1],)
    if any(v == ("R",) for v in g2.values()):
        g2["R"] = ()
    g2 = dict(g2)
    if closed_problems(g2) is not None:
        return None
    return g2


def nested_loops(rng):
    """Two loop_hostile-like cores, nested or adjacent, sharing exits."""
    for _ in range(20):
        a = loop_hostile(rng)
        b = loop_hostile(rng)
        if a is None or b is None:
            continue
        # rename b and splice: replace one exit block of a (x0) by b's entry,
        # b's final exits fall to a's 'R' or stay exits; optionally add a back
        # arc from b's exit into a's core (nesting b inside a's cycle)
        bb = {("n" + k): tuple("n" + t for t in v) for k, v in b.items()}
        g = dict(a)
        if "x0" not in g:
            continue
        g["x0"] = ("nE",)
        g.update(bb)
        if rng.random() < 0.6:
            # nest: b's exit goes back into a's core -> b inside a's loop
            bexits = [k for k, v in bb.items() if not v]
            k = rng.choice(bexits)
            acore = [x for x in a if x.startswith("c")]
            g[k] = (rng.choice(acore),)
        if closed_problems(g) is None:
            return g
    return None


def structured(rng, maxdepth=3, extra_edges=0):
    """Nested if/while/break/continue/return skeleton lowered to a CFG, then
    `extra_edges` random additional arcs (irreducibility, exits into siblings)."""
    for _ in range(50):
        g = {}
        cnt = [0]

        def new():
            name = str(cnt[0])
            cnt[0] += 1
            g[name] = []
            return name

        def stmts(cur, depth, loop):
            for _ in range(rng.randint(1, 3)):
                if cur is None:
                    break
                cur = stmt(cur, depth, loop)
            return cur

        def stmt(cur, depth, loop):
            c = rng.random()
            if depth >= maxdepth:
                c = rng.choice([0.1, 0.1, 0.1, 0.85, 0.9, 0.97])
            if c < 0.2:
                nxt = new()
                g[cur].append(nxt)
                return nxt
            if c < 0.55:
                then = new()
                g[cur].append(then)
                has_else = rng.random() < 0.6
                t_end = stmts(then, depth + 1, loop)
                e_end = None
                if has_else:
                    els = new()
                    g[cur].append(els)
                    e_end = stmts(els, depth + 1, loop)
                join = new()
                used = False
                if t_end is not None:
                    g[t_end].append(join)
                    used = True
                if has_else:
                    if e_end is not None:
                        g[e_end].append(join)
                        used = True
                else:
                    g[cur].append(join)
                    used = True
                if not used:
                    del g[join]
                    return None
                return join
            if c < 0.8:
                head = new()
                g[cur].append(head)
                body = new()
                ex = new()
                g[head] += [body, ex]
                b_end = stmts(body, depth + 1, (head, ex))
                if b_end is not None:
                    g[b_end].append(head)
                return ex
            if c < 0.88 and loop:
                g[cur].append(loop[1])
                return None
            if c < 0.95 and loop:
                g[cur].append(loop[0])
                return None
            return None  # return statement: cur stays an exit

        entry = new()
        stmts(entry, 0, None)
        names = list(g)
        for _ in range(extra_edges):
            cands = [k for k in names if len(g[k]) < 2]
            if not cands:
                break
            k = rng.choice(cands)
            t = rng.choice(names[1:]) if len(names) > 1 else None
            if t is not None and t not in g[k]:
                g[k].append(t)
        gg = {k: tuple(v) for k, v in g.items()}
        if len(gg) >= 3 and closed_problems(gg) is None:
            return gg
    return None


# ---------------------------------------------------------------- renaming

_NS_NAMES = [
    "synth_asign_block_0",
    "synth_asign_block_1",
    "synth_exit_latch_block_0",
    "synth_exit_block_0",
    "synth_head_block_0",
    "synth_tail_block_0",
    "synth_return_block_0",
    "synth_fill_block_0",
    "synth_exit_branch_block_0",
    "loop_region_0",
    "head_region_0",
    "branch_region_0",
    "tail_region_0",
    "meta_region_0",
    "__scfg_exit_var_0__",
    "__scfg_backedge_var_0__",
    "__scfg_control_var_0__",
]


def relabel(g, rng, mode):
    """G-names: (i) names sorting differently from insertion order,
    (ii) long random strings, (iii) names inside the generator's namespace."""
    names = list(g)
    if mode == "shuffled":
        new = [f"b{i:03d}" for i in range(len(names))]
        rng.shuffle(new)
    elif mode == "long":
        alphabet = "abcdefghijklmnopqrstuvwxyzABCDEFGHIJKLMNOPQRSTUVWXYZ0123456789_"
        new = []
        seen = set()
        while len(new) < len(names):
            s = "".join(rng.choice(alphabet) for _ in range(rng.randint(8, 40)))
            if s not in seen:
                seen.add(s)
                new.append(s)
    elif mode == "collide":
        # names that are distinct as strings but equal (or ordered differently)
        # under a plausible normalisation: case folding, stripping, numeric
        # value, natural order, unicode compatibility forms
        families = [
            ["Exit", "exit", "EXIT", "eXit"],
            ["L", "l"], ["A", "a", "B", "b"],
            ["loop", "Loop", "LOOP"],
            ["1", "01", "001", "1 "], ["b2", "b10", "b02", "b1"],
            ["x", "x ", " x", "x\t"],
            ["stra\u00dfe", "strasse", "STRASSE"],
            ["\ufb01n", "fin"], ["e\u0301", "\u00e9"],
            ["n_1", "n-1", "n.1", "n1"],
            ["", " "],
            # names spelt like combinations of other names of the graph
            ["a", "a->b", "b->c", "c", "b"],
            ["p", "p_q", "q_r", "r", "q"],
            ["x", "x:y", "y:z", "z", "y"],
            ["m", "m.n", "n.o", "o", "n"],
        ]
        fam = list(dict.fromkeys(x for f in rng.sample(families, rng.randint(1, 3)) for x in f))
        rng.shuffle(fam)
        new = [f"q{i}" for i in range(len(names))]
        k = rng.randint(2, max(2, min(len(fam), len(names))))
        for pos, nm in zip(rng.sample(range(len(names)), min(k, len(names))), fam):
            new[pos] = nm
    elif mode == "namespace":
        pool = _NS_NAMES[:]
        c = rng.random()
        if c < 0.3:
            # several names of ONE kind whose indices meet a counter value or
            # mix one and two digits ('9' sorts after '10' as text)
            base = rng.choice(_NS_NAMES)
            idxs = rng.choice([(9, 10), (10, 9), (2, 10), (99, 100), (9, 10, 11), (0, 1, 2),
                               (1, 0, 2), (2, 1, 0), (1,), (7,), (10,)])
            pool = [re.sub(r"_[01](__)?$", lambda m: f"_{i}" + (m.group(1) or ""), base)
                    for i in idxs]
            new = [f"q{i}" for i in range(len(names))]
            for pos, nm in zip(sorted(rng.sample(range(len(names)), min(len(pool), len(names)))),
                               pool):
                new[pos] = nm
            m = dict(zip(names, new))
            return {m[k]: tuple(m[t] for t in v) for k, v in g.items()}
        if c < 0.6:
            # indices beyond the generator's first picks: equal to / next to a
            # counter value, one and two digits mixed ('9' sorts after '10')
            pool = [re.sub(r"_0(__)?$", lambda m: f"_{i}" + (m.group(1) or ""), nm)
                    for nm in _NS_NAMES[::2] + _NS_NAMES[1::2]
                    for i in rng.sample([0, 1, 2, 3, 9, 10, 11, 12, 99, 100], 3)]
            pool = list(dict.fromkeys(pool))
        rng.shuffle(pool)
        new = [f"q{i}" for i in range(len(names))]
        k = rng.randint(1, min(4, len(names)))
        for pos, nm in zip(rng.sample(range(len(names)), k), pool):
            new[pos] = nm
    else:
        raise ValueError(mode)
    m = dict(zip(names, new))
    return {m[k]: tuple(m[t] for t in v) for k, v in g.items()}


# ---------------------------------------------------------------- mixtures

def gen_case(cls, rng):
    """One graph of class `cls` or None (caller retries)."""
    if cls == "rand":
        return rand_closed(rng, rng.randint(5, 14), p2=rng.choice([0.3, 0.5, 0.7]),
                           pexit=rng.choice([0.08, 0.15, 0.25]))
    if cls == "rand_small":
        return rand_closed(rng, rng.randint(3, 8), p2=rng.choice([0.3, 0.5, 0.7]),
                           pexit=rng.choice([0.1, 0.2]))
    if cls == "cons":
        return cons_cfg(rng, rng.randint(15, 48), p2=rng.choice([0.3, 0.5, 0.7]))
    if cls == "cons_large":
        return cons_cfg(rng, rng.randint(48, 96), p2=rng.choice([0.3, 0.5]))
    if cls == "struct":
        return structured(rng, maxdepth=rng.randint(2, 4), extra_edges=rng.randint(0, 4))
    if cls == "struct_clean":
        return structured(rng, maxdepth=rng.randint(2, 4), extra_edges=0)
    if cls == "loop":
        return loop_hostile(rng) if rng.random() < 0.6 else nested_loops(rng)
    if cls.startswith("names_"):
        base = gen_case(rng.choice(["rand", "struct", "loop", "rand_small"]), rng)
        if base is None:
            return None
        return relabel(base, rng, cls[len("names_"):])
    raise ValueError(cls)


def case_rng(cls, seed, index):
    return random.Random(f"{cls}/{seed}/{index}")


def make_case(cls, seed, index):
    """Deterministic: the identity (cls, seed, index) regenerates the graph."""
    rng = case_rng(cls, seed, index)
    for _ in range(30):
        g = gen_case(cls, rng)
        if g is not None:
            assert_closed(g)
            return g
    return None
