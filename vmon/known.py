"""known_findings.txt: read-only at run time.

Lines:
  known: property=<id> key=<mechanism key or fnmatch pattern> <what fails>
  fixed: property=<id> <commit> <what failed>      (suppresses nothing)
"""
import fnmatch
import os
import re

from . import core

PATH = os.path.join(core.VERIF_DIR, "known_findings.txt")


class Entry:
    def __init__(self, prop, key, text):
        self.prop = prop
        self.key = key
        self.text = text


class Known:
    def __init__(self, entries, fixed):
        self.entries = entries
        self.fixed = fixed

    def match(self, prop, key):
        for e in self.entries:
            if e.prop == prop and (e.key == key or fnmatch.fnmatchcase(key, e.key)):
                return e
        return None

    def by_key(self, prop, key):
        for e in self.entries:
            if e.prop == prop and e.key == key:
                return e
        return None


def load(path=PATH):
    entries, fixed = [], []
    if not os.path.exists(path):
        return Known(entries, fixed)
    for line in open(path):
        line = line.strip()
        if not line or line.startswith("#"):
            continue
        m = re.match(r"known:\s+property=(\S+)\s+key=(\S+)\s*(.*)$", line)
        if m:
            entries.append(Entry(m.group(1), m.group(2), m.group(3)))
            continue
        m = re.match(r"fixed:\s+property=(\S+)\s+(\S+)\s*(.*)$", line)
        if m:
            fixed.append((m.group(1), m.group(2), m.group(3)))
    return Known(entries, fixed)
