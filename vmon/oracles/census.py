"""C10: static census of the FunctionDef returned by SCFG2AST."""
import ast
import collections
import re

from numba_scfg.core.datastructures.basic_block import (
    PythonASTBlock, RegionBlock, SyntheticAssignment, SyntheticBranch)

from ..core import Viol
from ..hier import all_items

RESERVED = re.compile(r"^__scfg_.*__$")


def stamp_blocks(scfg):
    """-> (stmt_nodes, test_nodes, n_plain_returns): node objects whose identity
    is looked for in the output."""
    stmts, tests = [], []
    plain_returns = 0
    for k, b, sc, par, d in all_items(scfg):
        if not isinstance(b, PythonASTBlock):
            continue
        tree = list(b.tree)
        if len(b.jump_targets) == 2 and tree:
            last = tree.pop()
            tests.append((k, last.value if isinstance(last, ast.Expr) else last))
        for s in tree:
            if isinstance(s, ast.Return) and not b._jump_targets:
                # sole exit of the function: the return statement itself is emitted
                stmts.append((k, s))
            elif isinstance(s, ast.Return):
                if s.value is None:
                    plain_returns += 1
                else:
                    stmts.append((k, s.value))
            else:
                stmts.append((k, s))
    return stmts, tests, plain_returns


def bound_names(tree):
    out = set()
    for n in ast.walk(tree):
        if isinstance(n, ast.Name) and isinstance(n.ctx, (ast.Store, ast.Del)):
            out.add(n.id)
        elif isinstance(n, ast.arg):
            out.add(n.arg)
    return out


def check_census(original_fn, scfg, fdef, stamped, s2a_calls=None):
    stmts, tests, plain_returns = stamped
    stats = {"stmts": len(stmts), "tests": len(tests), "synth_assign": 0, "loops": 0}
    occ = collections.Counter()
    if_tests = collections.Counter()
    for n in ast.walk(fdef):
        occ[id(n)] += 1
        if isinstance(n, ast.If):
            if_tests[id(n.test)] += 1
    for k, node in stmts:
        c = occ.get(id(node), 0)
        if c != 1:
            raise Viol("C10", "statement_emitted_%s" % ("twice" if c > 1 else "never"),
                       (k, ast.unparse(node), c))
    for k, node in tests:
        c = if_tests.get(id(node), 0)
        if c != 1:
            raise Viol("C10", "test_is_condition_of_%d_ifs" % c if c < 3 else "test_in_many_ifs",
                       (k, ast.unparse(node), c, occ.get(id(node), 0)))
        if occ.get(id(node), 0) != 1:
            raise Viol("C10", "test_emitted_twice", (k, ast.unparse(node)))
    # synthetic assignments
    want = collections.Counter()
    cvars = set()
    nloops = 0
    nleaves = 0
    for k, b, sc, par, d in all_items(scfg):
        if isinstance(b, SyntheticAssignment):
            for v, c in b.variable_assignment.items():
                want[(v, c)] += 1
                cvars.add(v)
        elif isinstance(b, SyntheticBranch):
            cvars.add(b.variable)
        if isinstance(b, RegionBlock):
            if b.kind == "loop":
                nloops += 1
        else:
            nleaves += 1
    got = collections.Counter()
    nwhile = 0
    none_ret = 0
    for n in ast.walk(fdef):
        if isinstance(n, ast.While):
            nwhile += 1
        if isinstance(n, ast.Assign) and len(n.targets) == 1 and isinstance(n.targets[0], ast.Name):
            t = n.targets[0].id
            if t in cvars and isinstance(n.value, ast.Constant):
                got[(t, n.value.value)] += 1
            if t == "__scfg_return_value__" and isinstance(n.value, ast.Constant) \
                    and n.value.value is None and id(n.value) not in {id(x[1]) for x in stmts}:
                none_ret += 1
    stats["synth_assign"] = sum(want.values())
    stats["loops"] = nloops
    if got != want:
        raise Viol("C10", "synthetic_assignments_differ",
                   {"missing": sorted(map(str, (want - got).elements()))[:6],
                    "extra": sorted(map(str, (got - want).elements()))[:6]})
    if nwhile != nloops:
        raise Viol("C10", "while_count", (nwhile, nloops))
    if none_ret != plain_returns:
        raise Viol("C10", "plain_return_assignments", (none_ret, plain_returns))
    # dynamic exactly-once of codegen per leaf (M-s2a)
    if s2a_calls is not None:
        for k, b, sc, par, d in all_items(scfg):
            c = s2a_calls.get(k, 0)
            if c != 1:
                raise Viol("C10", "codegen_entered_%s_for_block" % ("twice" if c > 1 else "never"),
                           (k, type(b).__name__, c))
    # validity
    try:
        out_src = ast.unparse(ast.fix_missing_locations(fdef))
    except Exception as e:
        raise Viol("C10", "output_does_not_unparse", repr(e)[:200])
    try:
        compile(out_src, "<regenerated>", "exec")
        out_tree = ast.parse(out_src)
    except SyntaxError as e:
        raise Viol("C10", "output_does_not_compile", (str(e), out_src[:400]))
    # hygiene
    ob = bound_names(original_fn)
    nb = bound_names(out_tree.body[0])
    bad = sorted(n for n in nb - ob if not RESERVED.match(n))
    if bad:
        raise Viol("C10", "unreserved_name_introduced", bad[:6])
    lost = sorted(n for n in ob - nb)
    stats["extra_reads"] = sorted(
        {n.id for n in ast.walk(out_tree) if isinstance(n, ast.Name) and isinstance(n.ctx, ast.Load)}
        - {n.id for n in ast.walk(original_fn) if isinstance(n, ast.Name)} - nb)
    return stats, out_src
