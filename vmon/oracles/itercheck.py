"""C16: SCFG.__iter__ and ConcealedRegionView enumerate exactly the graph."""
from numba_scfg.core.datastructures.basic_block import RegionBlock

from ..core import Viol
from ..hier import all_items, levels


def level_head(sc):
    g = sc.graph
    cands = dict.fromkeys(g)
    for b in g.values():
        for t in b.jump_targets:
            cands.pop(t, None)
    return list(cands)


def check_view_sequence(sc, seq, label):
    """seq: names yielded by the concealed view of level `sc`."""
    g = sc.graph
    if len(seq) != len(set(seq)):
        dup = sorted({x for x in seq if seq.count(x) > 1})
        raise Viol("C16", "view_yields_twice", (label, dup))
    if set(seq) != set(g):
        raise Viol("C16", "view_not_a_permutation_of_level",
                   (label, {"missing": sorted(set(g) - set(seq)),
                            "extra": sorted(set(seq) - set(g))}))
    heads = level_head(sc)
    if len(heads) == 1 and seq and seq[0] != heads[0]:
        raise Viol("C16", "view_does_not_start_at_head", (label, seq[0], heads[0]))
    seen = set()
    for i, k in enumerate(seq):
        if i > 0:
            # some earlier item has k among its outgoing (region-as-node) targets
            if not any(k in g[p].jump_targets for p in seen):
                raise Viol("C16", "view_item_before_all_its_predecessors", (label, k, seq))
        seen.add(k)


def check_iteration(scfg):
    stats = {"levels": 0, "items": 0}
    if len(level_head(scfg)) != 1:
        # no unique head: "starting with the head" has no meaning (possible
        # only for graphs edited by hand; closed CFGs always have one)
        stats["skipped_no_unique_head"] = True
        from .. import core
        core.CTX.hit("C16.skipped_no_unique_head")
        return stats
    # "every block of the hierarchy" presupposes that every block can be
    # reached from the head (an edit history can leave a headless cycle beside
    # an orphan block that is then the only head)
    g0 = scfg.graph
    seen = {level_head(scfg)[0]}
    stack = list(seen)
    while stack:
        for t in g0[stack.pop()].jump_targets:
            if t in g0 and t not in seen:
                seen.add(t)
                stack.append(t)
    if len(seen) != len(g0):
        stats["skipped_unreachable_part"] = True
        from .. import core
        core.CTX.hit("C16.skipped_part_of_top_level_unreachable_from_head")
        return stats
    # whole-hierarchy iteration
    want = [k for k, b, sc, par, d in all_items(scfg)]
    got_pairs = list(scfg)
    got = [k for k, b in got_pairs]
    stats["items"] = len(got)
    if len(got) != len(set(got)):
        dup = sorted({x for x in got if got.count(x) > 1})
        raise Viol("C16", "iter_yields_twice", dup)
    if set(got) != set(want):
        raise Viol("C16", "iter_not_the_hierarchy", {"missing": sorted(set(want) - set(got)),
                                                     "extra": sorted(set(got) - set(want))})
    byname = {k: b for k, b, sc, par, d in all_items(scfg)}
    for k, b in got_pairs:
        if byname[k] is not b:
            raise Viol("C16", "iter_yields_stale_block", k)
    heads = level_head(scfg)
    if len(heads) == 1 and got and got[0] != heads[0]:
        raise Viol("C16", "iter_does_not_start_at_head", (got[0], heads[0]))
    # concealed view per level
    for reg, sc in levels(scfg):
        stats["levels"] += 1
        label = reg.name if reg is not None else "top"
        if len(level_head(sc)) != 1:
            continue
        view = sc.concealed_region_view
        seq = list(view)
        check_view_sequence(sc, seq, label)
        if len(view) != len(sc.graph):
            raise Viol("C16", "view_len", (label, len(view), len(sc.graph)))
        items = list(view.items())
        if [k for k, _ in items] != seq or any(sc.graph[k] is not b for k, b in items):
            raise Viol("C16", "view_items_disagree_with_iteration", label)
    return stats
