"""C15: dictionary and YAML round trip, compared by a harness-owned
structural equality (exactly the items the statement lists)."""
from numba_scfg.core.datastructures.basic_block import (
    RegionBlock, SyntheticAssignment, SyntheticBranch, PythonBytecodeBlock)

from ..core import Viol
from ..attach import exc_key


def struct(scfg):
    """name-keyed comparable structure of a hierarchy."""
    out = {}
    for k, b in scfg.graph.items():
        rec = {"name": b.name, "type": type(b).__name__, "targets": list(b._jump_targets),
               "backedges": list(b.backedges)}
        if isinstance(b, RegionBlock):
            rec["kind"] = b.kind
            rec["header"] = b.header
            rec["exiting"] = b.exiting
            pr = b.parent_region
            # the top-level (meta) region is not part of the graph's content:
            # only *that* the parent is the top level is compared, not its
            # generated name
            if isinstance(pr, RegionBlock) and pr.kind == "meta":
                rec["parent"] = "<top>"
            else:
                rec["parent"] = pr.name if isinstance(pr, RegionBlock) else (
                    "<not a region: %s>" % type(pr).__name__)
            rec["sub"] = struct(b.subregion) if b.subregion is not None else None
        elif isinstance(b, SyntheticBranch):
            rec["variable"] = b.variable
            rec["table"] = sorted((repr(kk), vv) for kk, vv in b.branch_value_table.items())
            rec["table_key_types"] = sorted({type(kk).__name__ for kk in b.branch_value_table})
        elif isinstance(b, SyntheticAssignment):
            rec["assign"] = sorted((kk, repr(vv)) for kk, vv in b.variable_assignment.items())
        elif isinstance(b, PythonBytecodeBlock):
            rec["begin"] = b.begin
            rec["end"] = b.end
        out[k] = rec
    return out


def first_diff(a, b, path=""):
    if type(a) != type(b):
        return (path, repr(a)[:80], repr(b)[:80])
    if isinstance(a, dict):
        for k in a:
            if k not in b:
                return (path + "/" + str(k), "present", "missing")
        for k in b:
            if k not in a:
                return (path + "/" + str(k), "missing", "present")
        for k in a:
            d = first_diff(a[k], b[k], path + "/" + str(k))
            if d:
                return d
        return None
    if isinstance(a, list):
        if len(a) != len(b):
            return (path, repr(a)[:80], repr(b)[:80])
        for i, (x, y) in enumerate(zip(a, b)):
            d = first_diff(x, y, path + f"[{i}]")
            if d:
                return d
        return None
    return None if a == b else (path, repr(a)[:80], repr(b)[:80])


def _diffkey(d):
    """mechanism key of a structural difference: the field that differs."""
    leaf = d[0].rsplit("/", 1)[-1]
    leaf = leaf.split("[")[0]
    return leaf


def check_roundtrip(scfg, chain=1):
    from numba_scfg.core.datastructures.scfg import SCFG

    stats = {"blocks": 0}
    s0 = struct(scfg)
    stats["blocks"] = len(s0)
    # ---- dict
    try:
        d1 = scfg.to_dict()
    except Exception as e:
        k = exc_key(e)
        raise Viol("C15", f"to_dict_raised:{k['type']}@{k['site']}", k)
    cur_d = d1
    cur = scfg
    for i in range(chain):
        try:
            g2, _ = SCFG.from_dict(cur_d)
        except Exception as e:
            k = exc_key(e)
            raise Viol("C15", f"from_dict_raised:{k['type']}@{k['site']}", k)
        d = first_diff(s0, struct(g2))
        if d:
            raise Viol("C15", "dict_roundtrip_differs:" + _diffkey(d), d)
        try:
            d2 = g2.to_dict()
        except Exception as e:
            k = exc_key(e)
            raise Viol("C15", f"rewrite_raised:{k['type']}@{k['site']}", k)
        dd = first_diff(d1, d2)
        if dd:
            raise Viol("C15", "rewritten_dict_differs:" + _diffkey(dd), dd)
        cur_d = d2
    # ---- yaml
    try:
        y1 = scfg.to_yaml()
    except Exception as e:
        k = exc_key(e)
        raise Viol("C15", f"to_yaml_raised:{k['type']}@{k['site']}", k)
    cur_y = y1
    for i in range(chain):
        try:
            g3, _ = SCFG.from_yaml(cur_y)
        except Exception as e:
            k = exc_key(e)
            raise Viol("C15", f"from_yaml_raised:{k['type']}@{k['site']}", k)
        d = first_diff(s0, struct(g3))
        if d:
            raise Viol("C15", "yaml_roundtrip_differs:" + _diffkey(d), d)
        try:
            d3 = g3.to_dict()
            cur_y = g3.to_yaml()
        except Exception as e:
            k = exc_key(e)
            raise Viol("C15", f"rewrite_after_yaml_raised:{k['type']}@{k['site']}", k)
        dd = first_diff(d1, d3)
        if dd:
            raise Viol("C15", "rewritten_dict_after_yaml_differs:" + _diffkey(dd), dd)
    return stats
