"""C13: brute-force references for the graph queries.

All references work on a plain view  name -> (jump_targets, _jump_targets)
taken from the very SCFG the library function was called with.
"""
from ..core import Viol


def view(scfg):
    return {k: (tuple(b.jump_targets), tuple(b._jump_targets)) for k, b in scfg.graph.items()}


def _succ_in(v):
    return {k: [t for t in jt if t in v] for k, (jt, _) in v.items()}


def reach_from(v, start, include_outside=True):
    """Names reachable from `start` by >= 1 edge; outside names are terminal."""
    seen = set()
    st = list(v[start][0]) if start in v else []
    while st:
        x = st.pop()
        if x in seen:
            continue
        seen.add(x)
        if x in v:
            st.extend(v[x][0])
    if not include_outside:
        seen = {x for x in seen if x in v}
    return seen


def ref_scc(v):
    succ = _succ_in(v)
    reach = {}
    for k in v:
        seen = set()
        st = list(succ[k])
        while st:
            x = st.pop()
            if x in seen:
                continue
            seen.add(x)
            st.extend(succ[x])
        reach[k] = seen
    comps = set()
    for k in v:
        comp = frozenset([k] + [j for j in v if j != k and j in reach[k] and k in reach[j]])
        comps.add(comp)
    return comps


def ref_heads(v):
    targeted = set()
    for k, (jt, _) in v.items():
        targeted.update(jt)
    return [k for k in v if k not in targeted]


def ref_headers_entries(v, subset):
    headers, entries = set(), set()
    for k, (jt, alljt) in v.items():
        if k in subset:
            continue
        hit = subset.intersection(alljt)
        headers |= hit
        if hit:
            entries.add(k)
    return headers, entries


def ref_exiting_exits(v, subset):
    exiting, exits = set(), set()
    for k in subset:
        jt = v[k][0]
        for t in jt:
            if t not in subset:
                exiting.add(k)
                exits.add(t)
        if not jt:
            exiting.add(k)
    return exiting, exits


def ref_doms(v, post=False):
    """dominators by deleting a node and testing reachability from the entries.
    -> (entries, {b: set of dominators}) ; nodes unreachable from the entry set
    are reported separately (domination is vacuous there)."""
    succ = _succ_in(v)
    if post:
        rev = {k: [] for k in v}
        for k, ts in succ.items():
            for t in ts:
                rev[t].append(k)
        entries = {k for k in v if not succ[k]}
        succ = rev
    else:
        targeted = {t for ts in succ.values() for t in ts}
        entries = {k for k in v if k not in targeted}

    def reach(removed):
        seen = set()
        st = [e for e in entries if e != removed]
        while st:
            x = st.pop()
            if x in seen:
                continue
            seen.add(x)
            for y in succ[x]:
                if y != removed:
                    st.append(y)
        return seen

    full = reach(None)
    doms = {b: {b} for b in v}
    for a in v:
        r = reach(a)
        for b in full:
            if b != a and b not in r:
                doms[b].add(a)
    return entries, doms, full


def ref_idoms(doms, reachable):
    out = {}
    for k in reachable:
        strict = doms[k] - {k}
        if not strict:
            continue
        cands = [s for s in strict if doms[s] == strict]
        if len(cands) == 1:
            out[k] = cands[0]
        else:
            out[k] = None  # not well defined
    return out


# ------------------------------------------------------------- comparisons

def cmp_scc(scfg, result):
    v = view(scfg)
    got = [frozenset(c) for c in result]
    if len(got) != len(set(got)):
        raise Viol("C13", "scc_duplicate_component", [sorted(c) for c in got])
    want = ref_scc(v)
    if set(got) != want:
        raise Viol("C13", "scc_mismatch", {"graph": {k: v[k][0] for k in v},
                                           "got": sorted(sorted(c) for c in got),
                                           "want": sorted(sorted(c) for c in want)})


def cmp_reachable(scfg, begin, end, result):
    v = view(scfg)
    want = end in reach_from(v, begin)
    if bool(result) != want:
        raise Viol("C13", "reachability_mismatch", {"graph": {k: v[k][0] for k in v},
                                                    "begin": begin, "end": end,
                                                    "got": result, "want": want})


def cmp_find_head(scfg, result, exc):
    v = view(scfg)
    heads = ref_heads(v)
    if len(heads) == 1:
        if exc is not None or result != heads[0]:
            raise Viol("C13", "find_head_mismatch", {"graph": {k: v[k][0] for k in v},
                                                     "got": result, "exc": repr(exc),
                                                     "want": heads[0]})
        return True
    # precondition failure: must not return an answer
    if exc is None:
        raise Viol("C13", "find_head_answer_without_unique_head",
                   {"graph": {k: v[k][0] for k in v}, "got": result, "candidates": heads})
    return False


def ref_fallback_entries(scfg):
    """entries of a sub-graph nothing of its own level jumps into: walk outwards
    through the enclosing regions (by the links the library itself keeps) to the
    first level where some other block jumps to the region.  None when the
    links cannot be followed."""
    sc = scfg
    for _ in range(200):
        r = getattr(sc, "region", None)
        if r is None or r.kind == "meta":
            return []
        pr = r.parent_region
        if pr is None or pr.subregion is None:
            return None
        P = pr.subregion
        ents = sorted(k for k, b in P.graph.items()
                      if k != r.name and r.name in b._jump_targets)
        if ents:
            return ents
        sc = P
    return None


def cmp_headers_entries(scfg, subset, result, exc):
    v = view(scfg)
    subset = set(subset)
    headers, entries = ref_headers_entries(v, subset)
    if exc is not None:
        if headers:
            raise Viol("C13", "headers_entries_raised", {"graph": {k: v[k][1] for k in v},
                                                         "subset": sorted(subset), "exc": repr(exc)})
        return "fallback_raised"
    gh, ge = result
    if headers:
        if sorted(headers) != list(gh) or sorted(entries) != list(ge):
            raise Viol("C13", "headers_entries_mismatch",
                       {"graph": {k: v[k][1] for k in v}, "subset": sorted(subset),
                        "got": [list(gh), list(ge)],
                        "want": [sorted(headers), sorted(entries)]})
        return "direct"
    # documented fallback: the head of the graph; entries from the parent region
    heads = ref_heads(v)
    if len(heads) == 1 and list(gh) != heads:
        raise Viol("C13", "headers_fallback_not_graph_head",
                   {"graph": {k: v[k][1] for k in v}, "subset": sorted(subset),
                    "got": list(gh), "want": heads})
    # ... and the entries are the blocks that jump to the enclosing region at
    # the first enclosing level where any block does (a region that is the
    # head of its own level is entered from further out)
    want = ref_fallback_entries(scfg)
    if want is not None and sorted(ge) != want:
        raise Viol("C13", "headers_fallback_entries_mismatch",
                   {"graph": {k: v[k][1] for k in v}, "subset": sorted(subset),
                    "got": list(ge), "want": want, "region": scfg.region.name})
    return "fallback" if not want else "fallback_with_outer_entries"


def cmp_exiting_exits(scfg, subset, result):
    v = view(scfg)
    subset = set(subset)
    exiting, exits = ref_exiting_exits(v, subset)
    ge, gx = result
    if sorted(exiting) != list(ge) or sorted(exits) != list(gx):
        raise Viol("C13", "exiting_exits_mismatch",
                   {"graph": {k: v[k][0] for k in v}, "subset": sorted(subset),
                    "got": [list(ge), list(gx)], "want": [sorted(exiting), sorted(exits)]})


def cmp_doms(scfg, result, exc, post=False):
    v = view(scfg)
    entries, doms, full = ref_doms(v, post)
    label = "post_doms" if post else "doms"
    if not entries:
        if exc is None:
            raise Viol("C13", label + "_answer_without_entries", {"graph": {k: v[k][0] for k in v}})
        return "no_entries"
    if exc is not None:
        raise Viol("C13", label + "_raised", {"graph": {k: v[k][0] for k in v}, "exc": repr(exc)})
    if set(result) != set(v):
        raise Viol("C13", label + "_keys", {"graph": {k: v[k][0] for k in v},
                                            "got": sorted(result)})
    for b in full:
        if set(result[b]) != doms[b]:
            raise Viol("C13", label + "_mismatch",
                       {"graph": {k: v[k][0] for k in v}, "node": b,
                        "got": sorted(result[b]), "want": sorted(doms[b])})
    # nodes not reachable from the entry set: domination is vacuous; the only
    # requirement is reflexivity
    for b in set(v) - full:
        if b not in result[b]:
            raise Viol("C13", label + "_not_reflexive", {"node": b})
    return "ok"


def cmp_imm_doms(doms_in, result, exc):
    """`doms_in` is the argument the library function was called with."""
    doms = {k: set(s) for k, s in doms_in.items()}
    # only decidable when the relation is a proper dominance relation: every
    # strict-dominator set is a chain
    want = {}
    for k, ds in doms.items():
        strict = ds - {k}
        if not strict:
            continue
        cands = [s for s in strict if s in doms and doms[s] == strict]
        if len(cands) != 1:
            return "not_a_tree"
        want[k] = cands[0]
    if exc is not None:
        raise Viol("C13", "imm_doms_raised", {"doms": {k: sorted(s) for k, s in doms.items()},
                                              "exc": repr(exc)})
    if dict(result) != want:
        raise Viol("C13", "imm_doms_mismatch", {"doms": {k: sorted(s) for k, s in doms.items()},
                                                "got": dict(result), "want": want})
    return "ok"
