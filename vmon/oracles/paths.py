"""C01: exhaustive exploration of the product  G x H x valuation.

G = input graph (plain dict name -> ordered successors), H = hierarchy after a
stage.  Two walkers that share only the synthetic-step function:

 (a) name_walk   : flatten H, follow _jump_targets by name through resolve()
 (b) region_walk : enter regions at the declared header, look names up in the
                   innermost graph, leave a region only from its declared
                   exiting item and only to a declared target / along a
                   declared back edge of the jumping leaf.

Both explore to a fixed point, so decision sequences of any length are
covered for the one H that was observed.
"""
from numba_scfg.core.datastructures.basic_block import (
    RegionBlock,
    SyntheticAssignment,
    SyntheticBranch,
)

from ..core import Viol, Inconclusive
from ..hier import flatten, resolve, is_orig, liveness

DEFAULT_CAP = 2_000_000


def entry_of(orig):
    targeted = set()
    for v in orig.values():
        targeted.update(v)
    ents = [k for k in orig if k not in targeted]
    if len(ents) != 1:
        raise Inconclusive("input_not_single_entry", ents)
    return ents[0]


def top_head(scfg):
    """Own head finder (find_head is under test in C13)."""
    g = scfg.graph
    cands = dict.fromkeys(g)
    for b in g.values():
        for t in b._jump_targets:
            if t not in b.backedges:
                cands.pop(t, None)
    cands = list(cands)
    if len(cands) != 1:
        raise Viol("C01", "no_unique_top_entry", cands)
    return cands[0]


def step_synth(b, val, stats):
    """Execute synthetic leaf b under valuation val (dict).

    -> (next target name or None, new valuation)
    """
    if isinstance(b, SyntheticAssignment):
        val = dict(val)
        val.update(b.variable_assignment)
        if len(b._jump_targets) != 1:
            raise Viol("C01", "assignment_block_arity", (b.name, b._jump_targets))
        return b._jump_targets[0], val
    if isinstance(b, SyntheticBranch):
        stats["branch_evals"] += 1
        stats["branch_blocks"].add(b.name)
        if b.variable not in val:
            raise Viol("C01", "branch_on_unset_variable", (b.name, b.variable))
        v = val[b.variable]
        if v not in b.branch_value_table:
            raise Viol("C01", "value_not_in_table", (b.name, b.variable, v))
        t = b.branch_value_table[v]
        if t not in b._jump_targets:
            raise Viol("C01", "table_target_not_successor", (b.name, t))
        return t, val
    if len(b._jump_targets) == 0:
        return None, val
    if len(b._jump_targets) == 1:
        return b._jump_targets[0], val
    raise Viol(
        "C01",
        "unsteered_synthetic_choice",
        (b.name, type(b).__name__, b._jump_targets),
    )


def _new_stats():
    return {"states": 0, "branch_evals": 0, "branch_blocks": set(), "pruned": True}


def _vt(val):
    return tuple(sorted(val.items()))


def name_walk(orig, scfg, cap=DEFAULT_CAP, prune=True):
    stats = _new_stats()
    leaves, regions = flatten(scfg)
    live = None
    if prune:
        live = liveness(leaves, regions)
    stats["pruned"] = live is not None
    entry = entry_of(orig)
    hentry = resolve(top_head(scfg), leaves, regions)

    def run_to_orig(name, val):
        seen = set()
        while True:
            if name is None:
                return None, val
            name = resolve(name, leaves, regions)
            b = leaves[name]
            if is_orig(b):
                return name, val
            key = (name, _vt(val))
            if key in seen:
                raise Viol("C01", "synthetic_cycle", name)
            seen.add(key)
            name, val = step_synth(b, val, stats)

    def norm(o, val):
        if live is None:
            return _vt(val)
        lv = live[o]
        return tuple(sorted((k, v) for k, v in val.items() if k in lv))

    start, val = run_to_orig(hentry, {})
    if start != entry:
        raise Viol("C01", "entry_mismatch", (start, entry))
    missing = [k for k in orig if k not in leaves]
    if missing:
        raise Viol("C05", "original_block_missing", sorted(missing))
    seen = set()
    todo = [(start, norm(start, val))]
    n = 0
    while todo:
        st = todo.pop()
        if st in seen:
            continue
        seen.add(st)
        n += 1
        if n > cap:
            stats["states"] = n
            raise Inconclusive("state_cap", n)
        o, vt = st
        b = leaves[o]
        k = len(orig[o])
        if k == 0:
            if len(b._jump_targets) > 1:
                raise Viol("C05", "exit_gained_targets", (o, b._jump_targets))
            nxt, _ = run_to_orig(
                b._jump_targets[0] if b._jump_targets else None, dict(vt)
            )
            if nxt is not None:
                raise Viol("C01", "exit_continues", (o, nxt))
            continue
        if len(b._jump_targets) != k:
            raise Viol("C05", "arity_changed", (o, orig[o], b._jump_targets))
        for i in range(k):
            nxt, v2 = run_to_orig(b._jump_targets[i], dict(vt))
            if nxt != orig[o][i]:
                raise Viol(
                    "C01", "wrong_successor", (o, i, orig[o][i], nxt, list(vt))
                )
            todo.append((nxt, norm(nxt, v2)))
    stats["states"] = n
    stats["orig_reached"] = len({s[0] for s in seen})
    return stats


def region_walk(orig, scfg, cap=DEFAULT_CAP, prune=True):
    stats = _new_stats()
    entry = entry_of(orig)
    top = scfg
    live = None
    if prune:
        try:
            leaves, regions = flatten(scfg)
            live = liveness(leaves, regions)
        except Viol:
            live = None  # hierarchy broken for walker (a): run unpruned
    stats["pruned"] = live is not None

    def graph_of(stack):
        return stack[-1].subregion.graph if stack else top.graph

    def descend(stack, name):
        """name is a key of the innermost graph; enter regions at their header."""
        while True:
            g = graph_of(stack)
            b = g[name]
            if isinstance(b, RegionBlock):
                if b.subregion is None or b.header not in b.subregion.graph:
                    raise Viol("C04", "header_not_inside", (b.name, b.header))
                stack = stack + (b,)
                name = b.header
                continue
            return stack, name, b

    def goto(stack, src_name, target):
        """leaf src_name (innermost level of stack) jumps to target."""
        cur = src_name
        is_back = target in graph_of(stack)[src_name].backedges
        while target not in graph_of(stack):
            if not stack:
                raise Viol("C01", "region_walk_dangling", (src_name, target))
            r = stack[-1]
            if r.exiting != cur:
                raise Viol(
                    "C04",
                    "left_from_non_exiting",
                    (r.name, cur, r.exiting, target),
                )
            if target not in r._jump_targets and not is_back:
                raise Viol(
                    "C04",
                    "leave_target_not_declared",
                    (r.name, src_name, target, r._jump_targets),
                )
            cur = r.name
            stack = stack[:-1]
        return descend(stack, target)

    def run_to_orig(stack, name, b, val):
        seen = set()
        while True:
            if is_orig(b):
                return stack, name, b, val
            key = (name, _vt(val))
            if key in seen:
                raise Viol("C01", "synthetic_cycle", name)
            seen.add(key)
            t, val = step_synth(b, val, stats)
            if t is None:
                return None, None, None, val
            stack, name, b = goto(stack, name, t)

    def norm(o, val):
        if live is None or o not in live:
            return _vt(val)
        lv = live[o]
        return tuple(sorted((k, v) for k, v in val.items() if k in lv))

    head = top_head(top)
    stack, name, b = descend((), head)
    stack, name, b, val = run_to_orig(stack, name, b, {})
    if name != entry:
        raise Viol("C01", "entry_mismatch_region_walk", (name, entry))
    seen = set()
    todo = [(stack, name, norm(name, val))]
    n = 0
    visited = set()
    while todo:
        stack, o, vt = todo.pop()
        key = (o, vt)
        if key in seen:
            continue
        seen.add(key)
        visited.add(o)
        n += 1
        if n > cap:
            stats["states"] = n
            raise Inconclusive("state_cap", n)
        b = graph_of(stack)[o]
        if o not in orig:
            raise Viol("C05", "unknown_original_block", o)
        k = len(orig[o])
        if k == 0:
            if len(b._jump_targets) > 1:
                raise Viol("C05", "exit_gained_targets", (o, b._jump_targets))
            if b._jump_targets:
                s2, n2, b2 = goto(stack, o, b._jump_targets[0])
                s2, n2, b2, _ = run_to_orig(s2, n2, b2, dict(vt))
                if n2 is not None:
                    raise Viol("C01", "exit_continues_region_walk", (o, n2))
            continue
        if len(b._jump_targets) != k:
            raise Viol("C05", "arity_changed", (o, orig[o], b._jump_targets))
        for i in range(k):
            s2, n2, b2 = goto(stack, o, b._jump_targets[i])
            s2, n2, b2, v2 = run_to_orig(s2, n2, b2, dict(vt))
            if n2 != orig[o][i]:
                raise Viol(
                    "C01",
                    "wrong_successor_region_walk",
                    (o, i, orig[o][i], n2, list(vt)),
                )
            todo.append((s2, n2, norm(n2, v2)))
    stats["states"] = n
    stats["orig_reached"] = len(visited)
    stats["visited"] = visited
    return stats
