"""C06: control variables are assigned before use and in range.

Part 1: table/successor agreement (every branching block, every stage).
Part 2: exact, path-sensitive exploration of H alone (all feasible paths of H
        are paths of this exploration; explored to a fixed point).
Part 3: classic must-assigned analysis; a verdict only before the branch
        stage (after it the analysis is imprecise by design, see DESIGN C06).
"""
from numba_scfg.core.datastructures.basic_block import (
    SyntheticAssignment,
    SyntheticBranch,
    SyntheticExitingLatch,
)

from ..core import Viol, Inconclusive
from ..hier import all_items, flatten, resolve, is_orig, liveness
from .paths import top_head

DEFAULT_CAP = 2_000_000


def check_tables(scfg):
    n = 0
    for k, b, sc, par, d in all_items(scfg):
        if isinstance(b, SyntheticBranch):
            n += 1
            vals = set(b.branch_value_table.values())
            tg = set(b._jump_targets)
            if vals - tg:
                raise Viol(
                    "C06",
                    "table_entry_not_a_successor",
                    (k, dict(b.branch_value_table), b._jump_targets),
                )
            if tg - vals:
                raise Viol(
                    "C06",
                    "successor_without_table_entry",
                    (k, dict(b.branch_value_table), b._jump_targets),
                )
    return n


def table_contract(old_block, new_targets, new_block):
    """Post-condition of SyntheticBranch.replace_jump_targets (M-table)."""
    if set(new_block.branch_value_table.values()) != set(new_block._jump_targets):
        raise Viol(
            "C06",
            "table_not_rewritten_with_targets",
            (
                old_block.name,
                dict(old_block.branch_value_table),
                old_block._jump_targets,
                tuple(new_targets),
                dict(new_block.branch_value_table),
            ),
        )
    if set(new_block.branch_value_table) != set(old_block.branch_value_table):
        raise Viol(
            "C06",
            "table_keys_changed",
            (old_block.name, dict(old_block.branch_value_table),
             dict(new_block.branch_value_table)),
        )
    # positional: a key that pointed at the i-th old target points at the
    # i-th new target (only checkable when arity is unchanged and old targets
    # are distinct)
    if len(new_targets) == len(old_block._jump_targets) and len(
        set(old_block._jump_targets)
    ) == len(old_block._jump_targets):
        m = dict(zip(old_block._jump_targets, new_targets))
        for k, v in old_block.branch_value_table.items():
            if v in m and new_block.branch_value_table.get(k) != m[v]:
                raise Viol(
                    "C06",
                    "table_entry_moved_to_wrong_target",
                    (old_block.name, k, v, m[v], new_block.branch_value_table.get(k)),
                )


def exact(scfg, cap=DEFAULT_CAP):
    """Explore (original leaf, live valuation, stale latches) to a fixed point.

    Collects every problem (does not stop at the first) and reports the set of
    branching blocks that were reached.
    """
    leaves, regions = flatten(scfg)
    live = liveness(leaves, regions)
    hentry = resolve(top_head(scfg), leaves, regions)
    latch_var = {
        k: b.variable for k, b in leaves.items() if isinstance(b, SyntheticExitingLatch)
    }
    probs = []
    probkeys = set()
    reached = set()
    stats = {"states": 0, "branch_evals": 0}

    def prob(*p):
        if p not in probkeys:
            probkeys.add(p)
            probs.append(p)

    def run(name, val, stale):
        seen = set()
        while True:
            if name is None:
                return None, val, stale
            name = resolve(name, leaves, regions)
            b = leaves[name]
            if is_orig(b):
                return name, val, stale
            key = (name, tuple(sorted(val.items())), stale)
            if key in seen:
                return None, val, stale
            seen.add(key)
            if isinstance(b, SyntheticAssignment):
                val = dict(val)
                val.update(b.variable_assignment)
                if stale:
                    stale = frozenset(
                        l for l in stale if latch_var[l] not in b.variable_assignment
                    )
                name = b._jump_targets[0] if b._jump_targets else None
            elif isinstance(b, SyntheticBranch):
                reached.add(name)
                stats["branch_evals"] += 1
                if b.variable not in val:
                    prob("unset_at_branch", name, b.variable)
                    return None, val, stale
                if name in stale:
                    prob("not_reassigned_since_latch_ran", name, b.variable)
                    return None, val, stale
                v = val[b.variable]
                if v not in b.branch_value_table:
                    prob("value_out_of_range", name, b.variable, v)
                    return None, val, stale
                if isinstance(b, SyntheticExitingLatch):
                    stale = stale | {name}
                name = b.branch_value_table[v]
            else:
                name = b._jump_targets[0] if b._jump_targets else None

    def norm(o, val, stale):
        lv = live[o]
        return (
            o,
            tuple(sorted((k, v) for k, v in val.items() if k in lv)),
            frozenset(l for l in stale if latch_var[l] in lv),
        )

    o, val, stale = run(hentry, {}, frozenset())
    todo = [norm(o, val, stale)] if o is not None else []
    seen = set()
    n = 0
    while todo:
        st = todo.pop()
        if st in seen:
            continue
        seen.add(st)
        n += 1
        if n > cap:
            raise Inconclusive("state_cap", n)
        o, vt, stale = st
        for t in leaves[o]._jump_targets:
            o2, v2, s2 = run(t, dict(vt), stale)
            if o2 is not None:
                todo.append(norm(o2, v2, s2))
    nbranch = sum(1 for b in leaves.values() if isinstance(b, SyntheticBranch))
    stats["states"] = n
    stats["branch_blocks"] = nbranch
    stats["branch_reached"] = len(reached)
    stats["unreached"] = sorted(
        k for k, b in leaves.items() if isinstance(b, SyntheticBranch) and k not in reached
    )
    return probs, stats


def static_must(scfg):
    """Forward must-assigned analysis on the flattened graph; returns flags."""
    leaves, regions = flatten(scfg)
    succ = {
        k: [resolve(t, leaves, regions) for t in b._jump_targets]
        for k, b in leaves.items()
    }
    pred = {k: [] for k in leaves}
    for k, v in succ.items():
        for t in v:
            pred[t].append(k)
    entry = resolve(top_head(scfg), leaves, regions)
    allv = set()
    for b in leaves.values():
        if isinstance(b, SyntheticAssignment):
            allv |= set(b.variable_assignment)
        if isinstance(b, SyntheticBranch):
            allv.add(b.variable)
    IN = {k: set(allv) for k in leaves}
    IN[entry] = set()

    def out(k):
        b = leaves[k]
        s = set(IN[k])
        if isinstance(b, SyntheticAssignment):
            s |= set(b.variable_assignment)
        if isinstance(b, SyntheticExitingLatch):
            s.discard(b.variable)
        return s

    ch = True
    while ch:
        ch = False
        for k in leaves:
            if k == entry:
                continue
            ps = pred[k]
            new = set.intersection(*[out(p) for p in ps]) if ps else set(allv)
            if new != IN[k]:
                IN[k] = new
                ch = True
    flags = []
    for k, b in leaves.items():
        if isinstance(b, SyntheticBranch) and b.variable not in IN[k]:
            flags.append((k, b.variable))
    return flags
