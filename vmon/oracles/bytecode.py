"""C09: the graph built from bytecode is exactly the bytecode's control flow.

Ground truth: dis.get_instructions / opcode.hasjrel / hasjabs of the *running*
interpreter plus the short name lists of vmon.workloads.corpus (A.10).
Stdlib-only and written for both 3.11 and 3.12."""
import dis

from ..core import Viol
from ..workloads import corpus


def check_instruction_retrieval(co, flow, per):
    """The library's own view of "which instructions are in this block"
    (PythonBytecodeBlock.get_instructions over SCFG.bcmap_from_bytecode) is
    exactly the dis instructions between begin and end: every instruction
    of the code object in exactly one block, in order, nothing invented."""
    from numba_scfg.core.datastructures.scfg import SCFG

    try:
        bcmap = SCFG.bcmap_from_bytecode(flow.bc)
    except Exception as e:
        raise Viol("C09", "bcmap_from_bytecode_raised", repr(e)[:200])
    seen = []
    for b in sorted(flow.scfg.graph.values(), key=lambda b: b.begin):
        try:
            got = b.get_instructions(bcmap)
        except Exception as e:
            raise Viol("C09", "get_instructions_raised", (b.name, repr(e)[:200]))
        g = [(i.offset, i.opname) for i in got]
        w = [(i.offset, i.opname) for i in per.get(b.name, [])]
        if g != w:
            raise Viol("C09", "get_instructions_differs_from_dis",
                       {"block": b.name, "range": [b.begin, b.end], "got": g[:8], "want": w[:8],
                        "n_got": len(g), "n_want": len(w)})
        seen += g
    return len(seen)


def check_byteflow(co, scfg, flow=None):
    """scfg: the SCFG of ByteFlow.from_bytecode(co).  Raises Viol('C09', ...)."""
    ins = list(dis.get_instructions(co))
    offs = [i.offset for i in ins]
    nxt = {a: b for a, b in zip(offs, offs[1:])}
    blocks = sorted(scfg.graph.values(), key=lambda b: b.begin)
    stats = {"blocks": len(blocks), "instructions": len(ins), "edges": 0}
    if not blocks:
        raise Viol("C09", "no_blocks", None)
    for b in blocks:
        if type(b).__name__ != "PythonBytecodeBlock":
            raise Viol("C09", "block_type", (b.name, type(b).__name__))
    if blocks[0].begin != 0:
        raise Viol("C09", "first_block_not_at_zero", blocks[0].begin)
    for a, b in zip(blocks, blocks[1:]):
        if a.end != b.begin:
            raise Viol("C09", "gap_or_overlap", (a.name, a.begin, a.end, b.name, b.begin))
    last_ins = ins[-1]
    if not (last_ins.offset < blocks[-1].end <= len(co.co_code)):
        raise Viol("C09", "last_block_end", (blocks[-1].end, last_ins.offset, len(co.co_code)))
    # instructions per block
    per = {}
    bi = 0
    for i in ins:
        while bi < len(blocks) and i.offset >= blocks[bi].end:
            bi += 1
        if bi >= len(blocks) or not (blocks[bi].begin <= i.offset < blocks[bi].end):
            raise Viol("C09", "instruction_not_covered", i.offset)
        per.setdefault(blocks[bi].name, []).append(i)
    first_of = {}
    for b in blocks:
        li = per.get(b.name)
        if not li:
            raise Viol("C09", "block_without_instruction", (b.name, b.begin, b.end))
        first_of[b.name] = li[0].offset
    firsts = set(first_of.values())
    # entry only at the first instruction / exit only after the last
    for b in blocks:
        li = per[b.name]
        for i in li[:-1]:
            if i.opcode in corpus.JUMPS or i.opname in corpus.NOFALL:
                raise Viol("C09", "jump_or_return_inside_block", (b.name, i.offset, i.opname))
        for i in li:
            if i.opcode in corpus.JUMPS and i.argval not in firsts:
                raise Viol("C09", "jump_target_inside_block", (b.name, i.offset, i.opname, i.argval))
        last = li[-1]
        want = corpus._succ_of(last, nxt)
        for t in want:
            if t not in firsts:
                raise Viol("C09", "successor_not_a_block_start", (b.name, last.opname, t))
        for t in b._jump_targets:
            if t not in scfg.graph:
                raise Viol("C09", "dangling_jump_target", (b.name, t))
        got = tuple(first_of[t] for t in b._jump_targets)
        stats["edges"] += len(got)
        if got != tuple(want):
            raise Viol("C09", "successors_mismatch",
                       {"block": b.name, "last": f"{last.offset}:{last.opname}",
                        "got": got, "want": tuple(want)})
        if b.backedges:
            raise Viol("C09", "fresh_graph_with_backedges", (b.name, b.backedges))
    if flow is not None:
        stats["instructions_retrieved"] = check_instruction_retrieval(co, flow, per)
    return stats
