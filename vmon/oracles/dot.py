"""C17: the DOT source produced by the renderers draws exactly the graph.

A small DOT reader (subset A.9 of DESIGN) tokenises Digraph.source; the
result is compared with the hierarchy walked through the graph dicts."""
import ast as _ast
import collections

from numba_scfg.core.datastructures.basic_block import (
    RegionBlock, SyntheticAssignment, SyntheticBranch, PythonASTBlock, PythonBytecodeBlock)

from ..core import Viol, Inconclusive
from ..hier import all_items, flatten, resolve


def tokenize(src):
    toks = []
    i, n = 0, len(src)
    while i < n:
        c = src[i]
        if c.isspace():
            i += 1
            continue
        if c == '"':
            j = i + 1
            buf = []
            while j < n and src[j] != '"':
                if src[j] == "\\" and j + 1 < n:
                    if src[j + 1] == '"':
                        buf.append('"')
                    else:
                        buf.append(src[j:j + 2])
                    j += 2
                    continue
                buf.append(src[j])
                j += 1
            if j >= n:
                raise Inconclusive("dot_unterminated_string")
            toks.append(("str", "".join(buf)))
            i = j + 1
            continue
        if src.startswith("->", i):
            toks.append(("op", "->"))
            i += 2
            continue
        if c in "{}[]=,;":
            toks.append(("op", c))
            i += 1
            continue
        if src.startswith("//", i):
            while i < n and src[i] != "\n":
                i += 1
            continue
        j = i
        while j < n and not src[j].isspace() and src[j] not in '{}[]=,;"' and not src.startswith("->", j):
            j += 1
        toks.append(("id", src[i:j]))
        i = j
    return toks


class DotGraph:
    def __init__(self):
        self.nodes = {}  # name -> (attrs, cluster path tuple)
        self.clusters = {}  # cluster name -> (parent path, attrs)
        self.edges = []  # (src, dst, attrs)
        self.dups = []


def parse(src):
    toks = tokenize(src)
    pos = [0]

    def peek():
        return toks[pos[0]] if pos[0] < len(toks) else (None, None)

    def take():
        t = peek()
        pos[0] += 1
        return t

    def attrs():
        out = {}
        if peek() == ("op", "["):
            take()
            while peek() != ("op", "]"):
                k = take()
                if k[0] is None:
                    raise Inconclusive("dot_eof_in_attrs")
                if k == ("op", ","):
                    continue
                if take() != ("op", "="):
                    raise Inconclusive("dot_attr_syntax")
                v = take()
                out[k[1]] = v[1]
            take()
        return out

    dg = DotGraph()

    def items(path):
        while True:
            t = peek()
            if t[0] is None:
                return
            if t == ("op", "}"):
                take()
                return
            if t == ("op", ";"):
                take()
                continue
            t = take()
            if t[1] == "subgraph" and t[0] == "id":
                name = take()[1]
                if take() != ("op", "{"):
                    raise Inconclusive("dot_subgraph_syntax")
                if name in dg.clusters:
                    dg.dups.append(("cluster", name))
                dg.clusters[name] = [path, {}]
                items(path + (name,))
                continue
            nxt = peek()
            if nxt == ("op", "->"):
                take()
                dst = take()[1]
                dg.edges.append((t[1], dst, attrs()))
            elif nxt == ("op", "="):
                take()
                v = take()
                if path:
                    dg.clusters[path[-1]][1][t[1]] = v[1]
            else:
                a = attrs()
                if t[1] in ("node", "edge", "graph") and t[0] == "id":
                    continue
                if t[1] in dg.nodes:
                    dg.dups.append(("node", t[1]))
                dg.nodes[t[1]] = (a, path)

    t = take()
    if t[1] not in ("digraph", "strict"):
        raise Inconclusive("dot_header", t)
    while peek() != ("op", "{"):
        if take()[0] is None:
            raise Inconclusive("dot_header_eof")
    take()
    items(())
    return dg


def expected_label_parts(b, bcmap=None, byteflow=False):
    parts = [b.name]
    if isinstance(b, SyntheticBranch):
        parts.append(f"variable: {b.variable}")
        for k, v in b.branch_value_table.items():
            parts.append(str(k))
            parts.append(str(v))
    elif isinstance(b, SyntheticAssignment):
        for k, v in b.variable_assignment.items():
            parts.append(f"{k} = {v}")
    elif isinstance(b, PythonASTBlock) and not byteflow:
        for n in b.tree:
            for line in _ast.unparse(n).split("\n"):
                parts.append(line.strip())
    elif isinstance(b, PythonBytecodeBlock) and byteflow and bcmap is not None:
        for off, ins in bcmap.items():
            if b.begin <= off < b.end:
                parts.append(f"{ins.offset:3}: {ins.opname}")
    return parts


def _norm_label(s):
    # labels escape characters that are special to graphviz; compare loosely
    return s.replace("\\\\", "\\")


def compare(dg, scfg, byteflow=False, bcmap=None):
    leaves, regions = flatten(scfg)
    stats = {"nodes": len(leaves), "clusters": len(regions), "edges": 0, "dashed": 0,
             "labels_checked": 0}
    if dg.dups:
        raise Viol("C17", "drawn_twice", dg.dups[:5])
    if set(dg.nodes) != set(leaves):
        raise Viol("C17", "node_set", {"missing": sorted(set(leaves) - set(dg.nodes))[:10],
                                       "extra": sorted(set(dg.nodes) - set(leaves))[:10]})
    want_clusters = {"cluster_" + r for r in regions}
    if set(dg.clusters) != want_clusters:
        raise Viol("C17", "cluster_set", {"missing": sorted(want_clusters - set(dg.clusters))[:10],
                                          "extra": sorted(set(dg.clusters) - want_clusters)[:10]})
    # nesting
    path_of = {}

    def rec(sc, path):
        for k, b in sc.graph.items():
            path_of[k] = path
            if isinstance(b, RegionBlock):
                rec(b.subregion, path + ("cluster_" + k,))

    rec(scfg, ())
    for k in leaves:
        if dg.nodes[k][1] != path_of[k]:
            raise Viol("C17", "node_in_wrong_cluster", (k, dg.nodes[k][1], path_of[k]))
    for r in regions:
        if tuple(dg.clusters["cluster_" + r][0]) != path_of[r]:
            raise Viol("C17", "cluster_nesting", (r, dg.clusters["cluster_" + r][0], path_of[r]))
    # edges
    solid = collections.Counter()
    dashed = collections.Counter()
    for k, b in leaves.items():
        for t in b.jump_targets:
            solid[(k, resolve(t, leaves, regions))] += 1
        for t in b.backedges:
            dashed[(k, resolve(t, leaves, regions))] += 1
    got_solid = collections.Counter()
    got_dashed = collections.Counter()
    for s, d, a in dg.edges:
        if a.get("style") == "dashed":
            got_dashed[(s, d)] += 1
        else:
            got_solid[(s, d)] += 1
    stats["edges"] = sum(solid.values())
    stats["dashed"] = sum(dashed.values())
    if got_solid != solid:
        raise Viol("C17", "solid_edges", {"missing": sorted((solid - got_solid).elements())[:10],
                                          "extra": sorted((got_solid - solid).elements())[:10]})
    if got_dashed != dashed:
        raise Viol("C17", "dashed_edges", {"missing": sorted((dashed - got_dashed).elements())[:10],
                                           "extra": sorted((got_dashed - dashed).elements())[:10]})
    # labels
    for k, b in leaves.items():
        lab = dg.nodes[k][0].get("label")
        if lab is None:
            raise Viol("C17", "node_without_label", k)
        lab = _norm_label(lab)
        for part in expected_label_parts(b, bcmap, byteflow):
            stats["labels_checked"] += 1
            if _norm_label(part) not in lab and part.replace("\\", "\\\\") not in lab:
                raise Viol("C17", "label_misses_content", (k, part, lab[:200]))
    for r, b in regions.items():
        lab = dg.clusters["cluster_" + r][1].get("label")
        if lab is None or r not in lab:
            raise Viol("C17", "cluster_label", (r, lab))
    return stats


def check_render(scfg, flow=None):
    """Render with the real renderer(s) and compare."""
    from numba_scfg.rendering.rendering import SCFGRenderer, ByteFlowRenderer

    from .. import core

    ctx = core.CTX
    log = ctx.data["gv"] = {}
    try:
        src = SCFGRenderer(scfg).render_scfg().source
    except Exception as e:
        from ..attach import exc_key
        raise Viol("C17", "render_raised", exc_key(e))
    finally:
        ctx.data["gv"] = None
    dg = parse(src)
    if log:
        # the call log at the graphviz boundary validates the reader
        got = (len(dg.nodes) + sum(1 for d in dg.dups if d[0] == "node"), len(dg.edges),
               len(dg.clusters) + sum(1 for d in dg.dups if d[0] == "cluster"))
        want = (log.get("node", 0), log.get("edge", 0), log.get("subgraph", 0))
        ctx.hit("M-gv.crosschecked")
        if got != want:
            raise Inconclusive("dot_reader_disagrees_with_graphviz_call_log", (got, want))
    stats = compare(dg, scfg)
    ctx.hit("C17.label_parts", stats["labels_checked"])
    ctx.hit("C17.edges_compared", stats["edges"] + stats["dashed"])
    if flow is not None:
        try:
            r = ByteFlowRenderer()
            src2 = r.render_byteflow(flow).source
        except Exception as e:
            from ..attach import exc_key
            raise Viol("C17", "byteflow_render_raised", exc_key(e))
        dg2 = parse(src2)
        s2 = compare(dg2, flow.scfg, byteflow=True, bcmap=r.bcmap)
        stats["byteflow_labels_checked"] = s2["labels_checked"]
        ctx.hit("C17.byteflow_renderer_checked")
        ctx.hit("C17.byteflow_label_parts", s2["labels_checked"])
    return stats
