"""C03: the restructured hierarchy is structured (invariant walker)."""
from numba_scfg.core.datastructures.basic_block import RegionBlock

from ..core import Viol
from ..hier import flatten, resolve, levels


def check_structured(scfg):
    """Raises Viol('C03', ...) or returns statistics."""
    leaves, regions = flatten(scfg)
    stats = {"levels": 0, "loops": 0, "heads": 0, "branch_leaves": 0}
    for reg, sc in levels(scfg):
        stats["levels"] += 1
        g = sc.graph
        # (1) DAG at this level once declared back edges are ignored
        indeg = {k: 0 for k in g}
        for k, b in g.items():
            for t in b.jump_targets:
                if t in g:
                    indeg[t] += 1
        q = [k for k, v in indeg.items() if v == 0]
        n = 0
        while q:
            x = q.pop()
            n += 1
            for t in g[x].jump_targets:
                if t in g:
                    indeg[t] -= 1
                    if indeg[t] == 0:
                        q.append(t)
        if n != len(g):
            raise Viol(
                "C03",
                "cycle_at_level",
                (reg.name if reg else "top", sorted(k for k, v in indeg.items() if v)),
            )
        # (3) branch structure
        for k, b in g.items():
            jt = b.jump_targets
            if len(jt) <= 1:
                continue
            if isinstance(b, RegionBlock):
                if b.kind != "head":
                    raise Viol("C03", "multi_successor_region_not_head", (k, b.kind, jt))
                stats["heads"] += 1
                if len(set(jt)) != len(jt):
                    raise Viol("C03", "branch_targets_not_distinct", (k, jt))
                conts = set()
                for t in jt:
                    if t not in g:
                        raise Viol("C03", "branch_target_outside_level", (k, t))
                    br = g[t]
                    if not (isinstance(br, RegionBlock) and br.kind == "branch"):
                        raise Viol(
                            "C03",
                            "head_successor_not_branch_region",
                            (k, t, type(br).__name__, getattr(br, "kind", None)),
                        )
                    if len(br.jump_targets) != 1:
                        raise Viol(
                            "C03",
                            "branch_region_continuations",
                            (t, br.jump_targets),
                        )
                    conts.add(br.jump_targets[0])
                if len(conts) != 1:
                    raise Viol("C03", "branches_without_common_tail", (k, sorted(conts)))
                tl = next(iter(conts))
                if tl not in g or not (
                    isinstance(g[tl], RegionBlock) and g[tl].kind == "tail"
                ):
                    raise Viol("C03", "continuation_not_tail_region", (k, tl))
            else:
                stats["branch_leaves"] += 1
                if reg is None or reg.kind != "head" or reg.exiting != k:
                    raise Viol(
                        "C03",
                        "branching_leaf_not_head_exiting",
                        (
                            k,
                            reg.name if reg else None,
                            reg.kind if reg else None,
                            reg.exiting if reg else None,
                        ),
                    )
    # (2) loops
    leafset_cache = {}

    def leafset(r):
        if r.name not in leafset_cache:
            acc = set()

            def rec(sc):
                for k, b in sc.graph.items():
                    if isinstance(b, RegionBlock):
                        rec(b.subregion)
                    else:
                        acc.add(k)

            rec(r.subregion)
            leafset_cache[r.name] = acc
        return leafset_cache[r.name]

    for rn, r in regions.items():
        if r.kind != "loop":
            continue
        stats["loops"] += 1

        def inner(sc, acc):
            for k, b in sc.graph.items():
                if isinstance(b, RegionBlock):
                    if b.kind != "loop":
                        inner(b.subregion, acc)
                else:
                    acc.append(b)
            return acc

        ls = inner(r.subregion, [])
        be = [b for b in ls if b.backedges]
        if len(be) != 1:
            raise Viol("C03", "loop_latch_count", (rn, [b.name for b in be]))
        b = be[0]
        if len(b.backedges) != 1:
            raise Viol("C03", "multiple_backedges", (b.name, b.backedges))
        if b.backedges[0] not in b._jump_targets:
            # the arc set is _jump_targets; `backedges` only flags members of it
            raise Viol("C03", "declared_backedge_is_not_an_arc",
                       (rn, b.name, b._jump_targets, b.backedges))
        hdr = resolve(r.header, leaves, regions)
        if resolve(b.backedges[0], leaves, regions) != hdr:
            raise Viol(
                "C03", "backedge_not_to_header", (rn, b.name, b.backedges, r.header)
            )
        e = r.exiting
        sc = r.subregion
        while e in sc.graph and isinstance(sc.graph[e], RegionBlock):
            rr = sc.graph[e]
            e = rr.exiting
            sc = rr.subregion
        if e != b.name:
            raise Viol("C03", "latch_is_not_exiting", (rn, b.name, e))
        # single entry: every arc from outside the loop's leaves targets the header
        inside = leafset(r)
        for k, lb in leaves.items():
            if k in inside:
                continue
            for t in lb._jump_targets:
                tt = resolve(t, leaves, regions)
                if tt in inside and tt != hdr:
                    raise Viol("C03", "loop_entered_not_at_header", (rn, k, t, tt, hdr))
    nbe = sum(1 for b in leaves.values() if b.backedges)
    if nbe != stats["loops"]:
        raise Viol("C03", "backedge_outside_loop_region", (nbe, stats["loops"]))
    # flattened graph without back edges is a DAG
    adj = {
        k: [resolve(t, leaves, regions) for t in b.jump_targets]
        for k, b in leaves.items()
    }
    color = {}
    for s0 in adj:
        if s0 in color:
            continue
        st = [(s0, iter(adj[s0]))]
        color[s0] = 1
        while st:
            x, it = st[-1]
            for y in it:
                if color.get(y) == 1:
                    raise Viol("C03", "cycle_without_declared_backedge", (x, y))
                if y not in color:
                    color[y] = 1
                    st.append((y, iter(adj[y])))
                    break
            else:
                color[x] = 2
                st.pop()
    return stats
