"""C08: block-by-block interpreter of the graph built from source, and the
statement census of the front end."""
import ast
import copy

from ..core import Viol


# ------------------------------------------------------------------ interpreter

def make_cfg_interp(graph, argnames, defaults=None, entry="0", signature=None):
    """graph: name -> block with .instructions/.jump_targets (WritableASTBlock)
    or .tree/._jump_targets (PythonASTBlock).  Returns make(globals)->callable
    executing exactly what the statement of C08 prescribes."""
    comp = {}
    for k, b in graph.items():
        tree = list(b.tree if hasattr(b, "tree") else b.instructions)
        jts = list(b._jump_targets if hasattr(b, "_jump_targets") else b.jump_targets)
        test = None
        ret = None
        stm = tree
        if len(jts) == 2:
            last = tree[-1]
            stm = tree[:-1]
            test = last.value if isinstance(last, ast.Expr) else last
        elif tree and isinstance(tree[-1], ast.Return):
            ret = tree[-1]
            stm = tree[:-1]
        stm = [s if isinstance(s, ast.stmt) else ast.Expr(s) for s in stm]
        mod = ast.fix_missing_locations(ast.Module([copy.deepcopy(s) for s in stm], []))
        cstm = compile(mod, "<blk %s>" % k, "exec")
        ctest = None
        if test is not None:
            ctest = compile(ast.fix_missing_locations(ast.Expression(copy.deepcopy(test))),
                            "<test %s>" % k, "eval")
        cret = None
        if ret is not None:
            v = copy.deepcopy(ret.value) if ret.value is not None else ast.Constant(None)
            cret = compile(ast.fix_missing_locations(ast.Expression(v)), "<ret %s>" % k, "eval")
        comp[k] = (cstm, ctest, cret, jts)

    cbind = None
    if signature is not None:
        # bind the arguments exactly as the function would: a function with the
        # same parameter list (defaults are evaluated when it is defined, as
        # for the reference) that returns its locals
        binder = ast.FunctionDef(
            name="__vmon_bind__", args=copy.deepcopy(signature),
            body=[ast.Return(ast.Call(ast.Name("locals", ast.Load()), [], []))],
            decorator_list=[], returns=None, type_comment=None, type_params=[])
        cbind = compile(ast.fix_missing_locations(ast.Module([binder], [])), "<bind>", "exec")

    def mk(g):
        bind = None
        if cbind is not None:
            gg = dict(g)
            exec(cbind, gg)
            bind = gg["__vmon_bind__"]

        def fn(*args):
            ns = dict(g)
            if bind is not None:
                ns.update(bind(*args))
            else:
                if defaults:
                    ns.update(defaults)
                ns.update(zip(argnames, args))
            cur = entry
            steps = 0
            while True:
                steps += 1
                if steps > 5000:
                    from ..progharness import Fuel
                    raise Fuel()
                cstm, ctest, cret, jts = comp[cur]
                exec(cstm, ns)
                if cret is not None:
                    return eval(cret, ns)
                if ctest is not None:
                    cur = jts[0] if eval(ctest, ns) else jts[1]
                elif len(jts) == 1:
                    cur = jts[0]
                else:
                    return None
        return fn

    return mk


# ------------------------------------------------------------------ reachability

SIMPLE = (ast.Assign, ast.AugAssign, ast.Expr, ast.Return, ast.Pass, ast.Break, ast.Continue)


def live_statements(fn):
    """Independent 'cannot complete normally' analysis of the source (A.7).
    -> set of ids of simple statements / tests that are reachable."""
    live = set()

    def stmts(body, loop):
        ok = True
        for s in body:
            if not ok:
                break
            ok = stmt(s, loop)
        return ok

    def stmt(s, loop):
        live.add(id(s))
        if isinstance(s, ast.Return):
            return False
        if isinstance(s, ast.Break):
            if loop is not None:
                loop["brk"] = True
            return False
        if isinstance(s, ast.Continue):
            return False
        if isinstance(s, ast.If):
            a = stmts(s.body, loop)
            b = stmts(s.orelse, loop) if s.orelse else True
            return a or b
        if isinstance(s, (ast.While, ast.For)):
            mark = {"brk": False}
            stmts(s.body, mark)
            e = stmts(s.orelse, loop) if s.orelse else True
            return e or mark["brk"]
        return True

    body = list(fn.body)
    done = stmts(body, None)
    return live, done


def stamp_source(tree):
    """Give every simple statement, every If/While test and every operand of an
    and/or a unique stamp (attribute _vid).  -> dict vid -> (kind, node)"""
    stamps = {}
    n = [0]

    def put(node, kind):
        n[0] += 1
        node._vid = n[0]
        stamps[n[0]] = (kind, node)

    for node in ast.walk(tree):
        if isinstance(node, (ast.Assign, ast.AugAssign, ast.Expr, ast.Return)):
            put(node, "stmt")
        elif isinstance(node, (ast.Pass, ast.Break, ast.Continue)):
            put(node, "noop")
        elif isinstance(node, (ast.If, ast.While)) and not isinstance(node.test, ast.BoolOp):
            # the test expression object itself ends up as the last element of a
            # block (and/or tests are desugared into assignments instead)
            put(node.test, "test")
            node.test._owner_vid = None
    return stamps


def census(fn, stamps, astcfg):
    """Every stamped simple statement occurs in exactly one block of the result
    or of ASTCFG.unreachable; pruned statements are dead or no-ops; every jump
    target names an existing block."""
    live, _ = live_statements(fn)
    where = {}
    for k, b in astcfg.items():
        for ins in b.instructions:
            vid = getattr(ins, "_vid", None)
            if vid is not None:
                where.setdefault(vid, []).append(("block", k))
        for t in b.jump_targets:
            if t not in astcfg:
                raise Viol("C08", "jump_target_names_no_block", (k, t))
    for b in getattr(astcfg, "unreachable", ()) or ():
        for ins in b.instructions:
            vid = getattr(ins, "_vid", None)
            if vid is not None:
                where.setdefault(vid, []).append(("unreachable", b.name))
    stats = {"stmts": 0, "dead": 0, "noops": 0}
    for vid, (kind, node) in stamps.items():
        w = where.get(vid, [])
        is_live = id(node) in live
        if kind == "noop":
            stats["noops"] += 1
            continue  # pass/break/continue may be pruned
        stats["stmts"] += 1
        if len(w) > 1:
            raise Viol("C08", "statement_in_two_blocks", (ast.unparse(node), w))
        if not w:
            raise Viol("C08", "statement_lost", (ast.unparse(node), "live" if is_live else "dead"))
        if w[0][0] == "unreachable":
            stats["dead"] += 1
            if is_live:
                raise Viol("C08", "reachable_statement_pruned", (ast.unparse(node), w))
        elif not is_live:
            raise Viol("C08", "dead_statement_kept_in_reachable_block", (ast.unparse(node), w))
    return stats
