"""C04: self-consistency of the region hierarchy (invariant walker)."""
from numba_scfg.core.datastructures.basic_block import RegionBlock

from ..core import Viol
from ..hier import flatten


def check_hierarchy(scfg):
    """Raises Viol('C04', kind, detail); returns stats otherwise.

    Identity of RegionBlock objects is deliberately not required:
    dataclasses.replace makes stale copies legitimately.  A parent is checked
    by name and through the shared `subregion` object.
    """
    flatten(scfg)  # uniqueness of names, key == name
    stats = {"regions": 0, "edges": 0, "max_depth": 0}

    def rec(sc, region, chain, depth):
        g = sc.graph
        stats["max_depth"] = max(stats["max_depth"], depth)
        scope = set(g)
        for c in chain:
            scope |= set(c)
        if region is not None:
            stats["regions"] += 1
            back = getattr(sc, "region", None)
            if back is None or back.name != region.name:
                raise Viol(
                    "C04",
                    "subregion_backref_name",
                    (region.name, getattr(back, "name", None)),
                )
            if back.subregion is not sc:
                raise Viol("C04", "subregion_backref_object", (region.name,))
            if region.header not in g:
                raise Viol("C04", "header_not_inside", (region.name, region.header))
            if region.exiting not in g:
                raise Viol("C04", "exiting_not_inside", (region.name, region.exiting))
            ex = g[region.exiting]
            if tuple(region.jump_targets) != tuple(ex.jump_targets):
                raise Viol(
                    "C04",
                    "region_targets_ne_exiting_targets",
                    (
                        region.name,
                        region._jump_targets,
                        ex.name,
                        ex._jump_targets,
                        ex.backedges,
                    ),
                )
        for k, b in g.items():
            for t in tuple(b._jump_targets) + tuple(b.backedges):
                stats["edges"] += 1
                if t not in scope:
                    raise Viol(
                        "C04",
                        "name_out_of_scope",
                        (k, t, region.name if region else "top"),
                    )
                if region is not None and k != region.exiting and t not in g:
                    raise Viol(
                        "C04", "leaves_from_non_exiting", (region.name, k, t)
                    )
            if isinstance(b, RegionBlock):
                if b.subregion is None:
                    raise Viol("C04", "region_without_subregion", k)
                exp_parent = region if region is not None else sc.region
                pr = b.parent_region
                if pr is None or pr.name != exp_parent.name:
                    raise Viol(
                        "C04",
                        "wrong_parent_name",
                        (k, getattr(pr, "name", None), exp_parent.name),
                    )
                if pr.subregion is not sc:
                    raise Viol("C04", "wrong_parent_object", (k, pr.name))
                rec(b.subregion, b, chain + [g], depth + 1)

    rec(scfg, None, [], 0)
    return stats
