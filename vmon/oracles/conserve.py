"""C05: conservation of the original blocks (in == out)."""
import dataclasses

from numba_scfg.core.datastructures.basic_block import SyntheticBlock

from ..core import Viol
from ..hier import flatten, resolve, is_orig


def _same_payload(a, b):
    if a is b:
        return True
    if isinstance(a, list) and isinstance(b, list):
        return len(a) == len(b) and all(x is y for x, y in zip(a, b))
    try:
        return a == b
    except Exception:
        return False


def check_conserved(G, Gblocks, scfg, joined, payload_snap=None):
    """G: name->successors before, Gblocks: name->block objects before."""
    leaves, regions = flatten(scfg)
    orig = {k: b for k, b in leaves.items() if is_orig(b)}
    stats = {"orig": len(orig), "added_synth": 0, "added_regions": len(regions),
             "renamed_arcs": 0}
    if set(orig) != set(G):
        raise Viol(
            "C05",
            "original_set_changed",
            {"lost": sorted(set(G) - set(orig)), "extra": sorted(set(orig) - set(G))},
        )
    for k, b in orig.items():
        ob = Gblocks[k]
        if type(b) is not type(ob):
            raise Viol("C05", "type_changed", (k, type(ob).__name__, type(b).__name__))
        for f in dataclasses.fields(b):
            if f.name in ("_jump_targets", "backedges"):
                continue
            if not _same_payload(getattr(b, f.name), getattr(ob, f.name)):
                raise Viol("C05", "payload_changed", (k, f.name))
        if payload_snap is not None:
            for f, items in payload_snap.get(k, {}).items():
                cur = getattr(b, f, None)
                if not isinstance(cur, list) or len(cur) != len(items) or any(
                        x is not y for x, y in zip(cur, items)):
                    raise Viol("C05", "payload_list_mutated", (k, f, len(items),
                                                               len(cur) if isinstance(cur, list) else None))
        old = G[k]
        new = b._jump_targets
        if len(old) == 0:
            if len(new) > 1 or (len(new) == 1 and not joined):
                raise Viol("C05", "exit_gained_targets", (k, new))
            if len(new) == 1:
                t = leaves.get(resolve(new[0], leaves, regions))
                if not isinstance(t, SyntheticBlock):
                    raise Viol("C05", "exit_edge_not_to_synthetic", (k, new))
        else:
            if len(new) != len(old):
                raise Viol("C05", "arity_changed", (k, old, new))
            for o, n in zip(old, new):
                if n == o:
                    continue
                stats["renamed_arcs"] += 1
                if n in regions:
                    continue
                if n in leaves and isinstance(leaves[n], SyntheticBlock):
                    continue
                raise Viol("C05", "renamed_to_non_synthetic", (k, o, n))
        for t in b.backedges:
            if t not in new:
                raise Viol("C05", "backedge_not_a_target", (k, t, new))
    for k, b in leaves.items():
        if k not in G:
            if not isinstance(b, SyntheticBlock):
                raise Viol("C05", "added_non_synthetic", (k, type(b).__name__))
            stats["added_synth"] += 1
    return stats
