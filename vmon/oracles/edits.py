"""C14: post-conditions of the graph edit primitives, given a pre-state snapshot."""
from numba_scfg.core.datastructures.basic_block import (
    RegionBlock,
    SyntheticAssignment,
    SyntheticBlock,
    SyntheticHead,
)

from ..core import Viol


def exiting_chain(block):
    """[(name, _jump_targets, backedges)] of the exiting blocks below a region."""
    out = []
    b = block
    while isinstance(b, RegionBlock) and b.subregion is not None and b.exiting in b.subregion.graph:
        b = b.subregion.graph[b.exiting]
        out.append((b.name, tuple(b._jump_targets), tuple(b.backedges)))
    return out


def snapshot(scfg):
    g = dict(scfg.graph)
    return {
        "blocks": g,
        "targets": {k: (tuple(b._jump_targets), tuple(b.backedges)) for k, b in g.items()},
        "chains": {k: exiting_chain(b) for k, b in g.items() if isinstance(b, RegionBlock)},
        "order": list(g),
    }


def same_block(a, b):
    """unchanged block: the identical object, or an equal re-creation of it
    (same type and fields; regions must still own the same subregion object)."""
    if a is b:
        return True
    if a is None or b is None or type(a) is not type(b):
        return False
    import dataclasses

    for f in dataclasses.fields(a):
        x, y = getattr(a, f.name), getattr(b, f.name)
        if f.name in ("subregion", "parent_region"):
            if f.name == "subregion" and x is not y:
                return False
            continue
        if x is y:
            continue
        try:
            if x != y:
                return False
        except Exception:
            return False
    return True


def _rerouted(old, backedges, S):
    """positions of old targets that are rerouted: in S and not a declared back edge."""
    return [i for i, t in enumerate(old) if t in S and t not in backedges]


def _check_pred_plain(label, name, old, oldbe, new, newbe, new_name, S):
    """insert_block semantics for one predecessor (or exiting block below it)."""
    if tuple(newbe) != tuple(oldbe):
        raise Viol("C14", "backedges_changed", (label, name, oldbe, newbe))
    for t in newbe:
        if t not in new:
            raise Viol("C14", "declared_backedge_dropped_from_targets", (label, name, old, new, newbe))
    if S:
        pos = _rerouted(old, oldbe, S)
        remaining_old = [t for i, t in enumerate(old) if i not in pos]
        remaining_new = [t for t in new if t != new_name]
        if remaining_old != remaining_new:
            raise Viol("C14", "other_successors_changed", (label, name, old, new, list(S)))
        if pos:
            if new_name not in new:
                raise Viol("C14", "arc_not_rerouted", (label, name, old, new, list(S)))
            # The new block sits where a rerouted arc was.  With several
            # rerouted arcs the statement leaves open whether they are
            # collapsed into one occurrence (and which) or all kept.
            cands = [[new_name if i in pos else t for i, t in enumerate(old)]]
            for keep in pos:
                cands.append([new_name if i == keep else t for i, t in enumerate(old)
                              if i == keep or i not in pos])
            if list(new) not in cands:
                raise Viol("C14", "rerouted_arc_moved", (label, name, old, new, list(S)))
            if any(t in S and t not in newbe for t in new):
                raise Viol("C14", "arc_into_S_left_behind", (label, name, old, new, list(S)))
        elif new_name in new:
            raise Viol("C14", "new_block_added_to_unrelated_predecessor", (label, name, old, new))
    else:
        if list(new) != list(old) + [new_name]:
            raise Viol("C14", "append_to_exit_wrong", (label, name, old, new))


def post_insert_block(pre, scfg, new_name, predecessors, successors, block_type):
    g = scfg.graph
    if new_name in pre["blocks"]:
        return "precondition:new_name_exists"
    P = list(predecessors)
    S = list(successors)
    if len(set(P)) != len(P) or any(p not in pre["blocks"] for p in P):
        return "precondition:bad_predecessors"
    nb = g.get(new_name)
    if nb is None or type(nb) is not block_type:
        raise Viol("C14", "new_block_missing_or_wrong_type", (new_name, type(nb).__name__))
    if tuple(nb._jump_targets) != tuple(S) or nb.backedges:
        raise Viol("C14", "new_block_successors", (new_name, nb._jump_targets, S, nb.backedges))
    if set(g) != set(pre["blocks"]) | {new_name}:
        raise Viol("C14", "key_set_changed", (sorted(set(g) ^ (set(pre["blocks"]) | {new_name})),))
    for k, b in pre["blocks"].items():
        if k in P:
            continue
        if not same_block(g[k], b):
            raise Viol("C14", "unrelated_block_replaced", (k,))
    for p in P:
        old, oldbe = pre["targets"][p]
        nbk = g[p]
        _check_pred_plain("pred", p, old, oldbe, nbk._jump_targets, nbk.backedges, new_name, S)
        if type(nbk) is not type(pre["blocks"][p]):
            raise Viol("C14", "predecessor_type_changed", (p,))
        if isinstance(nbk, RegionBlock):
            ch_old = pre["chains"].get(p, [])
            ch_new = exiting_chain(nbk)
            if [c[0] for c in ch_old] != [c[0] for c in ch_new]:
                raise Viol("C14", "exiting_chain_changed", (p, ch_old, ch_new))
            for (n0, t0, b0), (n1, t1, b1) in zip(ch_old, ch_new):
                _check_pred_plain("exiting_of_" + p, n0, t0, b0, t1, b1, new_name, S)
    return "ok"


def post_insert_control(pre, scfg, new_name, predecessors, successors):
    g = scfg.graph
    if new_name in pre["blocks"]:
        return "precondition:new_name_exists"
    P = list(predecessors)
    S = list(successors)
    if len(set(P)) != len(P) or any(p not in pre["blocks"] for p in P):
        return "precondition:bad_predecessors"
    head = g.get(new_name)
    if not isinstance(head, SyntheticHead):
        raise Viol("C14", "head_missing_or_wrong_type", (new_name, type(head).__name__))
    if tuple(head._jump_targets) != tuple(S) or head.backedges:
        raise Viol("C14", "head_successors", (new_name, head._jump_targets, S))
    added = [k for k in g if k not in pre["blocks"] and k != new_name]
    for k, b in pre["blocks"].items():
        if k in P:
            continue
        if not same_block(g.get(k), b):
            raise Viol("C14", "unrelated_block_replaced", (k,))
    used_assign = set()
    values = set()
    narcs = 0
    for p in P:
        old, oldbe = pre["targets"][p]
        nbk = g[p]
        new = nbk._jump_targets
        if tuple(nbk.backedges) != tuple(oldbe):
            raise Viol("C14", "backedges_changed", ("pred", p, oldbe, nbk.backedges))
        if len(new) != len(old):
            raise Viol("C14", "predecessor_arity_changed", (p, old, new))
        if len(set(old)) != len(old):
            return "precondition:duplicate_targets"
        for i, (o, n) in enumerate(zip(old, new)):
            if o in S and o not in oldbe:
                narcs += 1
                a = g.get(n)
                if n in pre["blocks"] or not isinstance(a, SyntheticAssignment):
                    raise Viol("C14", "arc_not_through_fresh_assignment", (p, i, o, n))
                if n in used_assign:
                    raise Viol("C14", "assignment_block_shared_by_two_arcs", (p, n))
                used_assign.add(n)
                if tuple(a._jump_targets) != (new_name,) or a.backedges:
                    raise Viol("C14", "assignment_not_to_head", (n, a._jump_targets))
                if list(a.variable_assignment) != [head.variable]:
                    raise Viol("C14", "assignment_variable", (n, dict(a.variable_assignment), head.variable))
                v = a.variable_assignment[head.variable]
                if v in values:
                    raise Viol("C14", "assignment_value_reused", (n, v))
                values.add(v)
                if head.branch_value_table.get(v) != o:
                    raise Viol("C14", "head_does_not_continue_to_original_target",
                               (p, o, v, dict(head.branch_value_table)))
            elif o != n:
                raise Viol("C14", "unrequested_arc_changed", (p, i, o, n))
        if isinstance(nbk, RegionBlock):
            # the exiting chain must mirror the region's own targets
            ch_new = exiting_chain(nbk)
            ch_old = pre["chains"].get(p, [])
            if [c[0] for c in ch_old] != [c[0] for c in ch_new]:
                raise Viol("C14", "exiting_chain_changed", (p, ch_old, ch_new))
            ren = {o: n for o, n in zip(old, new) if o != n}
            for (n0, t0, b0), (n1, t1, b1) in zip(ch_old, ch_new):
                want = tuple(ren.get(t, t) if t not in b0 else t for t in t0)
                if tuple(t1) != want or tuple(b1) != tuple(b0):
                    raise Viol("C14", "exiting_block_not_rerouted_with_region",
                               (p, n0, t0, t1, want))
    if set(added) != used_assign:
        raise Viol("C14", "unexpected_added_blocks", (sorted(set(added) ^ used_assign),))
    if set(head.branch_value_table) != values:
        raise Viol("C14", "head_table_keys", (dict(head.branch_value_table), sorted(values)))
    return "ok" if narcs else "ok_no_arcs"


def post_join_returns(pre, scfg):
    g = scfg.graph
    exits_before = [k for k, (t, be) in pre["targets"].items()
                    if not [x for x in t if x not in be]]
    if len(exits_before) <= 1:
        if list(g) != pre["order"] or any(not same_block(g[k], b) for k, b in pre["blocks"].items()):
            raise Viol("C14", "join_returns_not_a_noop", (exits_before,))
        return "noop"
    exits_after = [k for k, b in g.items() if not b.jump_targets]
    if len(exits_after) != 1:
        raise Viol("C14", "join_returns_exit_count", (exits_after,))
    e = exits_after[0]
    if e in pre["blocks"] or not isinstance(g[e], SyntheticBlock):
        raise Viol("C14", "join_returns_exit_not_fresh_synthetic", (e,))
    for x in exits_before:
        cur = x
        steps = 0
        while cur != e:
            b = g[cur]
            jt = b.jump_targets
            if len(jt) != 1:
                raise Viol("C14", "former_exit_does_not_reach_common_exit", (x, cur, jt))
            cur = jt[0]
            steps += 1
            if cur != e and (cur in pre["blocks"] or steps > 10):
                raise Viol("C14", "former_exit_path_leaves_inserted_blocks", (x, cur))
    for k, b in pre["blocks"].items():
        if k not in exits_before and not same_block(g.get(k), b):
            raise Viol("C14", "unrelated_block_replaced", (k,))
    return "joined"


def post_join_tails_and_exits(pre, scfg, tails, exits, result):
    """returns (t, e) both in the graph; every former T->E arc now runs
    T -> ... t -> ... e' with e' in E, through inserted blocks only."""
    g = scfg.graph
    T, E = list(tails), list(exits)
    if not T or not E or any(t not in pre["blocks"] for t in T):
        return "precondition"
    t, e = result
    if t not in g or e not in g:
        raise Viol("C14", "returned_name_not_in_graph", (t, e))
    inserted = {k for k in g if k not in pre["blocks"]}
    narcs = 0
    for p in T:
        old, oldbe = pre["targets"][p]
        arcs = [s for s in old if s in E and s not in oldbe]
        if not arcs:
            continue
        narcs += len(arcs)
        # all walks from p that stay on inserted blocks until they land
        landings = []
        st = [(nx, p == t, p == e, False) for nx in g[p].jump_targets]
        seen = set()
        while st:
            cur, saw_t, saw_e, via = st.pop()
            if (cur, saw_t, saw_e, via) in seen:
                continue
            seen.add((cur, saw_t, saw_e, via))
            saw_t = saw_t or cur == t
            saw_e = saw_e or cur == e
            if cur in inserted:
                for nx in g[cur].jump_targets:
                    st.append((nx, saw_t, saw_e, True))
                if not g[cur].jump_targets:
                    landings.append((None, saw_t, saw_e, True))
            else:
                landings.append((cur, saw_t, saw_e, via))
        for cur, saw_t, saw_e, via in landings:
            if cur in E:
                if not (saw_t and saw_e):
                    raise Viol("C14", "tail_exit_arc_bypasses_returned_blocks",
                               (p, cur, t, e, old, g[p]._jump_targets))
            elif via:
                raise Viol("C14", "inserted_blocks_lead_outside_exits", (p, cur, E))
        landed = {l[0] for l in landings}
        for s in arcs:
            if s not in landed:
                raise Viol("C14", "tail_exit_arc_lost", (p, s, sorted(x for x in landed if x)))
    for k, b in pre["blocks"].items():
        if k not in T and not same_block(g.get(k), b):
            raise Viol("C14", "unrelated_block_replaced", (k,))
    return "ok" if narcs else "ok_no_arcs"
