"""./check <ID> --replay <path>: re-run exactly one recorded case."""
import json
import os
import tempfile

from . import core, runner


def run(check, path):
    if not os.path.isabs(path):
        path = os.path.join(core.VERIF_DIR, path)
    with open(path) as f:
        rec = json.load(f)
    case = rec.get("case")
    if hasattr(check, "replay_case") and case is not None:
        return check.replay_case(rec)
    if case is None:
        print("replay file has no case")
        return 3
    spec = {"kind": "single", "case": case, "tier": "thorough"}
    spec.update(rec.get("spec_extra") or {})
    os.makedirs(os.path.join(core.VERIF_DIR, "out"), exist_ok=True)
    with tempfile.TemporaryDirectory(dir=os.path.join(core.VERIF_DIR, "out")) as td:
        r = runner.run_worker(check.PROPERTY, spec, td, 0, 1800)
        if "_failed" not in r and not r.get("finding_counts"):
            # every fourth shard of a check runs with the library's DEBUG log
            # records formatted: a case that holds is tried that way as well
            r2 = runner.run_worker(check.PROPERTY, spec, td, 1, 1800, {"VMON_LOGFORMAT": "1"})
            if "_failed" not in r2 and r2.get("finding_counts"):
                print("(reproduced with VMON_LOGFORMAT=1: DEBUG log records formatted)")
                r = r2
    if "_failed" in r:
        print("INCONCLUSIVE replay worker failed:", r["_failed"], r.get("_stderr", "")[-500:])
        return 2
    want = (rec.get("finding") or {}).get("key")
    keys = r.get("finding_counts", {})
    for f in r.get("findings", []):
        print(json.dumps({k: f[k] for k in ("prop", "key", "stage", "detail") if k in f})[:1500])
    if keys:
        from . import known as known_mod

        kf = known_mod.load()
        unknown = [k for k in keys if kf.match(check.PROPERTY, k) is None]
        if not unknown:
            for k in keys:
                ent = kf.match(check.PROPERTY, k)
                print(f"KNOWN-FINDING: property={check.PROPERTY} key={ent.key} {ent.text}")
            return 0
        same = want in keys
        print(f"VIOLATION property={check.PROPERTY} replay={os.path.relpath(path, core.VERIF_DIR)} "
              f"keys={sorted(keys)} same_as_recorded={same}")
        return 1
    print(f"{check.PROPERTY}: replayed case holds (recorded key: {want})")
    return 0
