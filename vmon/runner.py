"""Parent side of a check: plan shards, run workers, merge, classify, report.

Exit codes: 0 held (known findings printed), 1 violation, 2 inconclusive.
"""
import collections
import concurrent.futures
import json
import os
import subprocess
import sys
import tempfile
import time

from . import core, known as known_mod, evidence as evidence_mod

PY = os.environ.get("VMON_PYTHON", "/venv/bin/python")
MAX_VIOLATION_LINES = 12


def ensure_deps():
    """icontract into /verif/.deps from the offline wheelhouse (idempotent)."""
    deps = os.path.join(core.VERIF_DIR, ".deps")
    if os.path.isdir(os.path.join(deps, "icontract")):
        return True
    wheels = "/opt/veriftools/wheels"
    if not os.path.isdir(wheels):
        return False
    cmd = [PY, "-m", "pip", "install", "--quiet", "--no-index", "--find-links", wheels,
           "--target", deps, "icontract"]
    try:
        subprocess.run(cmd, timeout=300, stdout=subprocess.DEVNULL, stderr=subprocess.DEVNULL)
    except Exception:
        return False
    return os.path.isdir(os.path.join(deps, "icontract"))


def repo_state():
    def git(*a):
        try:
            return subprocess.run(["git", "-C", core.REPO_DIR, *a], capture_output=True,
                                  text=True, timeout=30).stdout
        except Exception:
            return ""
    head = git("rev-parse", "HEAD").strip()
    diff = git("diff", "HEAD")
    return {"head": head, "dirty": bool(diff.strip()), "diff_sha": core.sha(diff) if diff.strip() else None}


def run_worker(check_id, spec, outdir, idx, timeout, env_extra=None, python=None):
    specf = os.path.join(outdir, f"spec_{idx}.json")
    outf = os.path.join(outdir, f"out_{idx}.json")
    with open(specf, "w") as f:
        json.dump(spec, f)
    env = dict(os.environ)
    env[core.GUARD] = "1"
    env["PYTHONPATH"] = core.VERIF_DIR
    env.setdefault("PYTHONHASHSEED", "0")
    env.pop("PYTHONSTARTUP", None)
    if env_extra:
        env.update(env_extra)
    cmd = [python or PY, "-m", "vmon.worker", check_id, specf, outf]
    t0 = time.time()
    try:
        p = subprocess.run(cmd, env=env, timeout=timeout, capture_output=True, text=True,
                           cwd=core.VERIF_DIR)
    except subprocess.TimeoutExpired:
        return {"_failed": "timeout", "_spec": spec, "_wall": time.time() - t0}
    if p.returncode != 0 or not os.path.exists(outf):
        return {"_failed": f"exit {p.returncode}", "_spec": spec,
                "_stderr": (p.stderr or "")[-3000:], "_wall": time.time() - t0}
    with open(outf) as f:
        r = json.load(f)
    r["_wall"] = time.time() - t0
    r["_spec"] = spec
    try:
        os.unlink(outf)
        os.unlink(specf)
    except OSError:
        pass
    return r


def merge(results):
    m = {
        "evaluations": 0,
        "nontrivial": set(),
        "findings": [],
        "finding_counts": collections.Counter(),
        "counters": collections.Counter(),
        "inconclusive": [],
        "inconclusive_count": 0,
        "samples": [],
        "failed_shards": [],
        "extra": {},
        "maxima": {},
        "histograms": collections.defaultdict(collections.Counter),
    }
    for r in results:
        if "_failed" in r:
            m["failed_shards"].append({"spec": r["_spec"], "why": r["_failed"],
                                       "stderr": r.get("_stderr", "")[-1500:]})
            continue
        m["evaluations"] += r.get("evaluations", 0)
        m["nontrivial"].update(r.get("nontrivial", []))
        m["findings"].extend(r.get("findings", []))
        m["finding_counts"].update(r.get("finding_counts", {}))
        m["counters"].update(r.get("counters", {}))
        m["inconclusive"].extend(r.get("inconclusive", [])[:5])
        m["inconclusive_count"] += r.get("inconclusive_count", 0)
        if len(m["samples"]) < 6:
            m["samples"].extend(r.get("samples", [])[:2])
        for k, v in r.get("maxima", {}).items():
            m["maxima"][k] = max(m["maxima"].get(k, 0), v)
        for k, h in r.get("histograms", {}).items():
            m["histograms"][k].update(h)
        for k, v in r.get("extra", {}).items():
            m["extra"].setdefault(k, []).append(v)
    return m


def try_shrink(prop, finding, budget=45.0):
    """Ask a worker for a smaller witness with the same key (bounded)."""
    case = finding.get("case")
    if not isinstance(case, dict) or case.get("kind") not in (
            "graph", "astgraph", "program", "src", "dynsrc"):
        return None
    if os.environ.get("VMON_NO_SHRINK"):
        return None
    out = os.path.join(core.VERIF_DIR, "out")
    os.makedirs(out, exist_ok=True)
    try:
        with tempfile.TemporaryDirectory(dir=out) as td:
            r = run_worker(prop, {"kind": "shrink", "case": case, "key": finding.get("key"),
                                  "budget": budget}, td, 0, budget * 3 + 60)
        return r.get("shrunk")
    except Exception:
        return None


def write_replay(prop, finding, shrink=False):
    d = os.path.join(core.VERIF_DIR, "replays", prop)
    os.makedirs(d, exist_ok=True)
    h = core.sha([finding.get("key"), finding.get("case")])
    path = os.path.join(d, h + ".json")
    rec = {"property": prop, "finding": finding, "case": finding.get("case"),
           "seed": finding.get("seed")}
    if shrink:
        small = try_shrink(prop, finding)
        if small is not None:
            rec["shrunk_case"] = small
    with open(path, "w") as f:
        json.dump(rec, f, indent=1, default=repr)
    return os.path.relpath(path, core.VERIF_DIR)


def run_check(check, tier, seed, jobs=None):
    """check: a module-like object with PROPERTY, plan(), run_shard(), describe()."""
    t0 = time.time()
    prop = check.PROPERTY
    jobs = jobs or int(os.environ.get("VMON_JOBS", os.cpu_count() or 4))
    ensure_deps()
    shards = check.plan(tier, seed)
    timeout = getattr(check, "SHARD_TIMEOUT", {"quick": 900, "thorough": 5400})[tier]
    results = []
    with tempfile.TemporaryDirectory(prefix="vmon_", dir=os.path.join(core.VERIF_DIR, "out")
                                     if os.path.isdir(os.path.join(core.VERIF_DIR, "out")) else None) as td:
        with concurrent.futures.ThreadPoolExecutor(max_workers=jobs) as ex:
            futs = []
            for i, spec in enumerate(shards):
                env_extra = spec.pop("_env", None) if isinstance(spec, dict) else None
                if i % 4 == 3 and not getattr(check, "NO_LOGFORMAT", False):
                    # every fourth shard runs with the library's DEBUG log
                    # records formatted (see core.setup_env)
                    env_extra = dict(env_extra or {}, VMON_LOGFORMAT="1")
                python = spec.pop("_python", None) if isinstance(spec, dict) else None
                futs.append(ex.submit(run_worker, prop, spec, td, i, timeout, env_extra, python))
            for f in futs:
                results.append(f.result())
    m = merge(results)
    if hasattr(check, "post"):
        # cross-shard oracles (C12 compares digests between processes)
        check.post(m, results, tier, seed)
    return finish(check, tier, seed, m, time.time() - t0)


def finish(check, tier, seed, m, wall):
    prop = check.PROPERTY
    kf = known_mod.load()
    own = [f for f in m["findings"]]
    # classify
    known_hits = collections.Counter()
    unknown = collections.OrderedDict()
    for key, cnt in m["finding_counts"].items():
        ent = kf.match(prop, key)
        if ent is not None:
            known_hits[ent.key] += cnt
        else:
            unknown[key] = cnt
    lines = []
    for ent_key, cnt in known_hits.items():
        ent = kf.by_key(prop, ent_key)
        lines.append(f"KNOWN-FINDING: property={prop} key={ent.key} hits={cnt} {ent.text}")
    viol_lines = []
    n_unknown_cases = sum(unknown.values())
    for key in list(unknown)[:MAX_VIOLATION_LINES]:
        wit = next((f for f in own if f.get("key") == key), None)
        if wit is None:
            wit = {"key": key}
        path = write_replay(prop, wit, shrink=len(viol_lines) < 3)
        viol_lines.append(f"VIOLATION property={prop} replay={path} key={key} cases={unknown[key]}")
    inconclusive_reasons = []
    if m["failed_shards"]:
        inconclusive_reasons.append(f"{len(m['failed_shards'])} worker shard(s) died or timed out")
    if m["inconclusive_count"]:
        frac = m["inconclusive_count"] / max(1, m["evaluations"])
        limit = getattr(check, "INCONCLUSIVE_TOLERANCE", 0.0)
        if frac > limit:
            inconclusive_reasons.append(
                f"{m['inconclusive_count']} inconclusive case(s) of {m['evaluations']}")
    need = getattr(check, "DECIDING_COUNTERS", [])
    for c in need:
        if m["counters"].get(c, 0) == 0:
            inconclusive_reasons.append(f"deciding monitor never ran: {c}")
    if m["evaluations"] == 0:
        inconclusive_reasons.append("no case executed")
    if len(m["nontrivial"]) < 2 and not viol_lines:
        inconclusive_reasons.append("fewer than 2 distinct non-trivial cases")
    ev = evidence_mod.build(check, tier, seed, m, wall, known_hits, unknown,
                            inconclusive_reasons)
    evidence_mod.write(prop, ev)
    for l in lines:
        print(l)
    for l in viol_lines:
        print(l)
    status = 0
    if viol_lines:
        status = 1
    elif inconclusive_reasons:
        status = 2
        for r in inconclusive_reasons:
            print(f"INCONCLUSIVE property={prop} {r}")
        for fs in m["failed_shards"][:3]:
            print("  shard:", json.dumps(fs["spec"])[:200], fs["why"])
            if fs.get("stderr"):
                print("  stderr:", fs["stderr"][-800:])
        for inc in m["inconclusive"][:5]:
            print("  case:", json.dumps(inc, default=repr)[:400])
    print(
        f"{prop} {tier} seed={seed}: evaluations={m['evaluations']} "
        f"distinct_nontrivial={len(m['nontrivial'])} unknown_findings={n_unknown_cases} "
        f"known_hits={sum(known_hits.values())} inconclusive={m['inconclusive_count']} "
        f"wall={wall:.1f}s -> {'HELD' if status == 0 else 'VIOLATION' if status == 1 else 'INCONCLUSIVE'}"
    )
    return status
