"""M-step: shape counters at the restructuring helpers (evidence only; never a
verdict, because invariants may legitimately be broken between a helper and the
following extraction)."""
from .. import core


def install(save):
    from numba_scfg.core import transformations as T

    orig_helper = save(T, "loop_restructure_helper")
    orig_extract = save(T, "extract_region")

    def loop_restructure_helper(scfg, loop):
        ctx = core.CTX
        ctx.hit("M-step.loop_helper")
        try:
            headers, entries = scfg.find_headers_and_entries(set(loop))
            exiting, exits = scfg.find_exiting_and_exits(set(loop))
            latches = [b for b in loop if set(headers) & set(scfg[b].jump_targets)]
            if len(headers) > 1:
                ctx.hit("shape.multi_header_loop")
            if len(exits) > 1:
                ctx.hit("shape.multi_exit_loop")
            if len(latches) > 1:
                ctx.hit("shape.multi_latch_loop")
            if len(exiting) > 1:
                ctx.hit("shape.multi_exiting_loop")
            if len(entries) > 1:
                ctx.hit("shape.multi_entry_loop")
        except Exception:
            ctx.hit("M-step.shape_probe_failed")
        return orig_helper(scfg, loop)

    def extract_region(scfg, region_blocks, region_kind, parent_region):
        ctx = core.CTX
        ctx.hit("M-step.extract_region." + str(region_kind))
        return orig_extract(scfg, region_blocks, region_kind, parent_region)

    T.loop_restructure_helper = loop_restructure_helper
    T.extract_region = extract_region
