"""M-edit: contracts (pre-state snapshot + post-condition) on the public edit
primitives of SCFG, attached with icontract when it is importable (plain
wrappers evaluating the very same condition functions otherwise).

Conditions record into the context and return True: a contract never aborts
the execution it observes."""
from .. import core
from ..attach import run_oracle
from ..oracles import edits as E

USING = {"icontract": False}


class EditContractBroken(Exception):
    pass


def _snap(self):
    try:
        return E.snapshot(self)
    except Exception:
        return None


def install(save):
    from numba_scfg.core.datastructures.scfg import SCFG

    try:
        import icontract
    except Exception:  # plain fallback, same conditions
        icontract = None
    USING["icontract"] = icontract is not None

    def cond_insert_block(self, new_name, predecessors, successors, block_type, OLD):
        ctx = core.CTX
        ctx.hit("M-edit.insert_block")
        if OLD.pre is not None:
            how = run_oracle(ctx, "C14.insert_block", E.post_insert_block, OLD.pre, self,
                             new_name, predecessors, successors, block_type)
            if how:
                ctx.hit("M-edit.insert_block." + how)
        return True

    def cond_insert_control(self, new_name, predecessors, successors, OLD):
        ctx = core.CTX
        ctx.hit("M-edit.insert_block_and_control_blocks")
        if OLD.pre is not None:
            how = run_oracle(ctx, "C14.insert_control", E.post_insert_control, OLD.pre, self,
                             new_name, predecessors, successors)
            if how:
                ctx.hit("M-edit.insert_control." + how)
        return True

    def cond_join_returns(self, OLD):
        ctx = core.CTX
        ctx.hit("M-edit.join_returns")
        if OLD.pre is not None:
            how = run_oracle(ctx, "C14.join_returns", E.post_join_returns, OLD.pre, self)
            if how:
                ctx.hit("M-edit.join_returns." + how)
        return True

    def cond_join_te(self, tails, exits, result, OLD):
        ctx = core.CTX
        ctx.hit("M-edit.join_tails_and_exits")
        if OLD.pre is not None:
            how = run_oracle(ctx, "C14.join_tails_and_exits", E.post_join_tails_and_exits,
                             OLD.pre, self, tails, exits, result)
            if how:
                ctx.hit("M-edit.join_tails_and_exits." + how)
        return True

    table = [
        ("insert_block", cond_insert_block),
        ("insert_block_and_control_blocks", cond_insert_control),
        ("join_returns", cond_join_returns),
        ("join_tails_and_exits", cond_join_te),
    ]
    for name, cond in table:
        orig = save(SCFG, name)
        # join_returns may already be wrapped by M-stage: wrap what is there now
        current = SCFG.__dict__[name]
        if icontract is not None:
            wrapped = icontract.snapshot(_snap, name="pre")(
                icontract.ensure(cond, error=EditContractBroken)(current)
            )
        else:
            wrapped = _plain(current, cond, name)
        setattr(SCFG, name, wrapped)


class _Old:
    def __init__(self, pre):
        self.pre = pre


def _plain(fn, cond, name):
    import inspect

    params = list(inspect.signature(cond).parameters)

    def wrapper(self, *a, **k):
        old = _Old(_snap(self))
        r = fn(self, *a, **k)
        bound = inspect.signature(fn).bind(self, *a, **k)
        bound.apply_defaults()
        kw = {p: bound.arguments[p] for p in params if p in bound.arguments}
        if "result" in params:
            kw["result"] = r
        kw["OLD"] = old
        cond(**kw)
        return r

    wrapper.__name__ = name
    wrapper.__wrapped__ = fn
    return wrapper
