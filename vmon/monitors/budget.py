"""Python-call budget (bounded-progress restatement of 'terminates', C02).

sys.monitoring PY_START events are counted while a *top-level* stage call is
active; when the budget of the current case is exceeded, BudgetExceeded is
raised into the monitored code.  The driver turns that into an inconclusive
case unless a re-run with 10x the budget also exceeds it."""
import sys

from .. import core

TOOL = 3  # sys.monitoring tool id (PROFILER_ID=2, OPTIMIZER_ID=5; 3 is free)


class BudgetExceeded(BaseException):
    pass


STATE = {"count": 0, "budget": None, "active": False}


def _cb(code, offset):
    STATE["count"] += 1
    b = STATE["budget"]
    if b is not None and STATE["count"] > b:
        STATE["budget"] = None
        raise BudgetExceeded(f"more than {b} python calls")


def start(budget):
    STATE["count"] = 0
    STATE["budget"] = budget


def stop():
    STATE["budget"] = None
    return STATE["count"]


def install(save):
    mon = sys.monitoring
    try:
        mon.use_tool_id(TOOL, "vmon-budget")
    except ValueError:
        pass
    mon.register_callback(TOOL, mon.events.PY_START, _cb)
    mon.set_events(TOOL, mon.events.PY_START)
