"""M-gv: call log at the library/graphviz boundary (validates the DOT reader)."""
from .. import core


def install(save):
    import graphviz

    D = graphviz.Digraph
    for name in ("node", "edge", "subgraph"):
        orig = save(D, name)

        def make(orig, name):
            def wrapper(self, *a, **k):
                log = core.CTX.data.get("gv")
                if log is not None:
                    if not (name == "subgraph" and (a or k.get("graph") is not None)):
                        log[name] = log.get(name, 0) + 1
                return orig(self, *a, **k)
            wrapper.__name__ = name
            wrapper.__wrapped__ = orig
            return wrapper

        setattr(D, name, make(orig, name))
