"""M-iter: generator wrapper around ConcealedRegionView.region_view_iterator;
a sequence that was consumed completely is checked against the level."""
from .. import core
from ..attach import run_oracle


def install(save):
    from numba_scfg.core.datastructures.scfg import ConcealedRegionView

    orig = save(ConcealedRegionView, "region_view_iterator")

    def region_view_iterator(self, head=None):
        ctx = core.CTX
        seq = []
        before = list(self.scfg.graph)
        for name in orig(self, head):
            seq.append(name)
            yield name
        ctx.hit("M-iter.view_exhausted")
        if head is None and list(self.scfg.graph) == before:
            from ..oracles.itercheck import check_view_sequence
            from .. import attach

            if "C16" in attach.ACTIVE:
                reg = getattr(self.scfg, "region", None)
                run_oracle(ctx, "C16.view_in_pipeline", check_view_sequence, self.scfg, seq,
                           "in-pipeline:" + str(getattr(reg, "name", None)))

    ConcealedRegionView.region_view_iterator = region_view_iterator
