"""Monitors attached by vmon.attach.install(profile)."""
