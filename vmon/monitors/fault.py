"""M-fault: source-free failpoints (DESIGN 0.6).

A *fault history* runs an operation of the library twice on throw-away
objects - once to count the Python function entries it makes inside
numba_scfg (sys.monitoring PY_START), once with an InjectedFault raised at the
k-th of them - and then lets the check run its normal case, with all oracles,
in the same process.  Whatever the aborted call left behind in module-level or
class-level state (memo tables that are only cleared on the success path, a
shared stack that is not unwound, a re-used scratch object) is then in the way
of the normal case, which must behave exactly as in a fresh process.

The fault is an ordinary exception (a RuntimeError subclass): `finally` blocks
and context managers of the library run as they would for any error.  Objects
the aborted call was working on are dropped; the statement about *their* state
is not made here (same-object recovery is exercised with the library's own
refusals, see the checks' `natural fault` histories)."""
import os
import sys

from .. import core

TOOL = 4  # sys.monitoring tool id (budget monitor uses 3)


class InjectedFault(RuntimeError):
    pass


_LIB = os.path.join(os.path.realpath(core.REPO_DIR), "numba_scfg") + os.sep
STATE = {"count": 0, "at": None, "armed": False, "site": None, "installed": False}
_is_lib = {}


def _cb(code, offset):
    if not STATE["armed"]:
        return None
    fn = code.co_filename
    lib = _is_lib.get(fn)
    if lib is None:
        lib = _is_lib[fn] = os.path.realpath(fn).startswith(_LIB) and (os.sep + "tests" + os.sep) not in fn
    if not lib:
        return None
    STATE["count"] += 1
    if STATE["at"] is not None and STATE["count"] == STATE["at"]:
        STATE["armed"] = False
        STATE["site"] = f"{code.co_qualname}:{code.co_firstlineno}"
        raise InjectedFault(f"injected fault at library call #{STATE['at']} ({STATE['site']})")
    return None


def install():
    if STATE["installed"]:
        return
    mon = sys.monitoring
    try:
        mon.use_tool_id(TOOL, "vmon-fault")
    except ValueError:
        pass
    mon.register_callback(TOOL, mon.events.PY_START, _cb)
    STATE["installed"] = True


def _events(on):
    mon = sys.monitoring
    mon.set_events(TOOL, mon.events.PY_START if on else 0)


def count_calls(fn):
    """Run fn() and return the number of function entries inside the library
    (exceptions of fn are swallowed: the count up to the exception is returned)."""
    install()
    STATE.update(count=0, at=None, armed=True, site=None)
    _events(True)
    try:
        try:
            fn()
        except Exception:
            pass
    finally:
        STATE["armed"] = False
        _events(False)
    return STATE["count"]


def run_with_fault(fn, k):
    """Run fn() with an InjectedFault raised at the k-th library call.
    -> (fired, site, outcome) where outcome is 'fault' (the injected exception
    came out), 'other:<type>' (another exception came out - the library
    translated or replaced it) or 'completed' (swallowed / never reached)."""
    install()
    STATE.update(count=0, at=k, armed=True, site=None)
    _events(True)
    outcome = "completed"
    try:
        try:
            fn()
        except InjectedFault:
            outcome = "fault"
        except RecursionError:
            outcome = "other:RecursionError"
        except Exception as e:
            outcome = "other:" + type(e).__name__
    finally:
        STATE["armed"] = False
        _events(False)
    return STATE["site"] is not None, STATE["site"], outcome


ESTIMATE = {}


def inject_around(ctx, rng, op, tries=1, cold_key=None, record=None):
    """One fault history prefix: aborted runs of op() at random points.
    Counters go to ctx.  Returns the list of sites hit.

    cold_key: the FIRST aborted run is made before op() ever completed in this
    process (a complete dry run would already fill whatever cache the fault is
    meant to leave half-filled); its fault point is drawn from the number of
    library calls the previous operation of the same key made.  The remaining
    runs draw theirs from a complete dry run of this operation.

    record: a dict (the case) in which the plan that was executed is kept as
    record["fault_plan"] = [["cold", k], ["dry"], ["warm", k], ...]; when it
    already holds one (a replay), exactly that plan is executed again."""
    sites = []
    plan = (record or {}).get("fault_plan")
    if plan is not None:
        for step in plan:
            if step[0] == "dry":
                count_calls(op)
                ctx.hit("M-fault.dry_runs")
            else:
                fired, site, outcome = run_with_fault(op, step[1])
                ctx.hit("M-fault.injected" if fired else "M-fault.not_reached")
                if fired:
                    sites.append(site)
        return sites
    done = []
    if record is not None:
        record["fault_plan"] = done
    if cold_key is not None:
        est = ESTIMATE.get(cold_key)
        if est:
            k = rng.randint(1, est)
            done.append(["cold", k])
            fired, site, outcome = run_with_fault(op, k)
            if fired:
                ctx.hit("M-fault.injected")
                ctx.hit("M-fault.injected_cold")
                ctx.hit("M-fault.outcome." + outcome.split(":")[0])
                sites.append(site)
            else:
                ctx.hit("M-fault.not_reached")
            tries -= 1
    n = count_calls(op)
    done.append(["dry"])
    if cold_key is not None and n > 0:
        ESTIMATE[cold_key] = n
    ctx.hit("M-fault.dry_runs")
    if n <= 0:
        ctx.hit("M-fault.operation_makes_no_library_call")
        return sites
    for _ in range(tries):
        k = rng.randint(1, n)
        done.append(["warm", k])
        fired, site, outcome = run_with_fault(op, k)
        if fired:
            ctx.hit("M-fault.injected")
            ctx.hit("M-fault.outcome." + outcome.split(":")[0])
            sites.append(site)
        else:
            ctx.hit("M-fault.not_reached")
    return sites
