"""M-query: post-conditions of the graph queries against brute-force references,
evaluated on the very (sub)graphs the restructuring code calls them with."""
from .. import core
from ..attach import run_oracle
from ..oracles import queries as Q

MAX_NODES = 48


def _small(scfg):
    return len(scfg.graph) <= MAX_NODES


def install(save):
    from numba_scfg.core.datastructures.scfg import SCFG
    from numba_scfg.core import transformations as T

    o_scc = save(SCFG, "compute_scc")
    o_head = save(SCFG, "find_head")
    o_he = save(SCFG, "find_headers_and_entries")
    o_ee = save(SCFG, "find_exiting_and_exits")
    o_reach = save(SCFG, "is_reachable_dfs")
    o_doms = save(T, "_doms")
    o_pdoms = save(T, "_post_doms")
    o_idoms = save(T, "_imm_doms")

    def _raised(name, self, e):
        # these queries have no precondition: an exception is an answer that
        # the definition does not prescribe
        if isinstance(e, Exception) and not isinstance(e, RecursionError):
            from ..attach import exc_key
            k = exc_key(e)
            core.CTX.violation("C13", f"{name}_raised:{k['type']}", k)

    def compute_scc(self):
        try:
            r = o_scc(self)
        except BaseException as e:
            _raised("compute_scc", self, e)
            raise
        ctx = core.CTX
        if _small(self):
            ctx.hit("M-query.compute_scc")
            run_oracle(ctx, "C13.scc", Q.cmp_scc, self, r)
        else:
            ctx.hit("M-query.skipped_large")
        return r

    def find_head(self):
        ctx = core.CTX
        try:
            r = o_head(self)
        except BaseException as e:
            if _small(self) and isinstance(e, Exception):
                ctx.hit("M-query.find_head_raised")
                run_oracle(ctx, "C13.find_head", Q.cmp_find_head, self, None, e)
            raise
        if _small(self):
            ctx.hit("M-query.find_head")
            run_oracle(ctx, "C13.find_head", Q.cmp_find_head, self, r, None)
        return r

    def find_headers_and_entries(self, subgraph):
        ctx = core.CTX
        sub = set(subgraph)
        try:
            r = o_he(self, subgraph)
        except BaseException as e:
            if _small(self) and isinstance(e, Exception):
                run_oracle(ctx, "C13.headers_entries", Q.cmp_headers_entries, self, sub, None, e)
            raise
        if _small(self):
            ctx.hit("M-query.find_headers_and_entries")
            how = run_oracle(ctx, "C13.headers_entries", Q.cmp_headers_entries, self, sub, r, None)
            if how:
                ctx.hit("M-query.headers_" + how)
        return r

    def find_exiting_and_exits(self, subgraph):
        ctx = core.CTX
        sub = set(subgraph)
        try:
            r = o_ee(self, subgraph)
        except BaseException as e:
            _raised("find_exiting_and_exits", self, e)
            raise
        if _small(self):
            ctx.hit("M-query.find_exiting_and_exits")
            run_oracle(ctx, "C13.exiting_exits", Q.cmp_exiting_exits, self, sub, r)
        return r

    def is_reachable_dfs(self, begin, end):
        ctx = core.CTX
        try:
            r = o_reach(self, begin, end)
        except BaseException as e:
            _raised("is_reachable_dfs", self, e)
            raise
        if _small(self):
            ctx.hit("M-query.is_reachable_dfs")
            run_oracle(ctx, "C13.reachable", Q.cmp_reachable, self, begin, end, r)
        return r

    def _doms(scfg):
        ctx = core.CTX
        try:
            r = o_doms(scfg)
        except Exception as e:
            if _small(scfg):
                run_oracle(ctx, "C13.doms", Q.cmp_doms, scfg, None, e, False)
            raise
        if _small(scfg):
            ctx.hit("M-query._doms")
            run_oracle(ctx, "C13.doms", Q.cmp_doms, scfg, r, None, False)
        return r

    def _post_doms(scfg):
        ctx = core.CTX
        try:
            r = o_pdoms(scfg)
        except Exception as e:
            if _small(scfg):
                run_oracle(ctx, "C13.post_doms", Q.cmp_doms, scfg, None, e, True)
            raise
        if _small(scfg):
            ctx.hit("M-query._post_doms")
            run_oracle(ctx, "C13.post_doms", Q.cmp_doms, scfg, r, None, True)
        return r

    def _imm_doms(doms):
        ctx = core.CTX
        snap = {k: set(v) for k, v in doms.items()}
        small = len(snap) <= MAX_NODES
        try:
            r = o_idoms(doms)
        except Exception as e:
            if small:
                run_oracle(ctx, "C13.imm_doms", Q.cmp_imm_doms, snap, None, e)
            raise
        if small:
            ctx.hit("M-query._imm_doms")
            how = run_oracle(ctx, "C13.imm_doms", Q.cmp_imm_doms, snap, r, None)
            if how == "not_a_tree":
                ctx.hit("M-query.imm_doms_not_a_tree")
        return r

    SCFG.compute_scc = compute_scc
    SCFG.find_head = find_head
    SCFG.find_headers_and_entries = find_headers_and_entries
    SCFG.find_exiting_and_exits = find_exiting_and_exits
    SCFG.is_reachable_dfs = is_reachable_dfs
    T._doms = _doms
    T._post_doms = _post_doms
    T._imm_doms = _imm_doms
