"""M-a2s / M-s2a: recorders at the source front end and back end.

M-a2s: dispatched statement node types, whether an and/or was hoisted out of
an enclosing expression (mechanism witness), and a post-prune sanity probe of
the produced block dict (duplicate / dangling successors, entry with a
predecessor).  M-s2a: how often codegen() was entered per block."""
import collections

from .. import core


def install(save):
    from numba_scfg.core.datastructures import ast_transforms as A

    T = A.AST2SCFGTransformer
    o_node = save(T, "handle_ast_node")
    o_expr = save(T, "handle_expression")
    o_bool = save(T, "handle_bool_op")
    o_transform = save(T, "transform")
    o_codegen = save(A.SCFG2ASTTransformer, "codegen")
    o_s2a_transform = save(A.SCFG2ASTTransformer, "transform")

    def handle_ast_node(self, node):
        ctx = core.CTX
        ctx.hit("M-a2s.handle_ast_node")
        ctx.data.setdefault("a2s_nodes", collections.Counter())[type(node).__name__] += 1
        return o_node(self, node)

    def handle_expression(self, node):
        st = core.CTX.data.setdefault("a2s_stack", [])
        st.append("E")
        try:
            return o_expr(self, node)
        finally:
            st.pop()

    def handle_bool_op(self, node):
        ctx = core.CTX
        st = ctx.data.setdefault("a2s_stack", [])
        # st[-1] is the handle_expression frame of this very BoolOp (if any);
        # the frame below tells who asked for it: 'B' = the parent and/or asked
        # lazily from inside its own arm (fine), 'E' = an enclosing expression
        # evaluated it eagerly, before its siblings (mechanism of finding D8)
        below = st[-2] if len(st) >= 2 else None
        if below == "E":
            # evidence only: the mechanism flag of the known finding is read off
            # the source (progbase.boolop_hoisting_prone), not off this stack
            ctx.hit("M-a2s.boolop_hoisted")
        ctx.hit("M-a2s.handle_bool_op")
        st.append("B")
        try:
            return o_bool(self, node)
        finally:
            st.pop()

    def transform(self):
        ctx = core.CTX
        ctx.hit("M-a2s.transform")
        r = o_transform(self)
        try:
            probe(ctx, self.blocks)
        except Exception:
            ctx.hit("M-a2s.probe_failed")
        return r

    def probe(ctx, blocks):
        flags = ctx.data.setdefault("flags", set())
        targeted = set()
        for k, b in blocks.items():
            jt = list(b.jump_targets)
            if len(jt) != len(set(jt)):
                flags.add("if-with-all-arms-empty")
                ctx.hit("M-a2s.duplicate_successors")
            for t in jt:
                targeted.add(t)
                if t not in blocks:
                    flags.add("if-with-all-arms-empty")
                    ctx.hit("M-a2s.dangling_successor")
        if "0" not in blocks or "0" in targeted:
            flags.add("function-starts-with-loop")
            ctx.hit("M-a2s.entry_has_predecessor_or_pruned")

    def codegen(self, block):
        ctx = core.CTX
        ctx.hit("M-s2a.codegen")
        name = getattr(block, "name", None)
        ctx.data.setdefault("s2a_calls", collections.Counter())[name] += 1
        return o_codegen(self, block)

    def s2a_transform(self, original, scfg):
        core.CTX.hit("M-s2a.transform")
        return o_s2a_transform(self, original, scfg)

    T.handle_ast_node = handle_ast_node
    T.handle_expression = handle_expression
    T.handle_bool_op = handle_bool_op
    T.transform = transform
    A.SCFG2ASTTransformer.codegen = codegen
    A.SCFG2ASTTransformer.transform = s2a_transform
