"""M-names: history recorder + online freshness check of generated names.

Every SCFG registers itself with its NameGenerator (wrapper around
SCFG.__post_init__).  At hand-out time a name must differ from everything the
same generator handed out before and from every block / region / variable name
present in any graph registered for that generator.  add_block must never
replace an existing block of another type (clobbering)."""
import weakref

from .. import core
from ..hier import all_items

# id(generator) -> {"gen": generator, "graphs": [SCFG], "handed": [(kind, name)]}
REG = {}


def reset():
    REG.clear()


def entry(gen):
    e = REG.get(id(gen))
    if e is None or e["gen"] is not gen:
        e = {"gen": gen, "graphs": [], "handed": [], "set": set()}
        REG[id(gen)] = e
    return e


def present_names(e):
    """all block, region and control-variable names in the registered graphs."""
    from numba_scfg.core.datastructures.basic_block import SyntheticAssignment, SyntheticBranch

    names = {}
    for sc in e["graphs"]:
        for k, b in sc.graph.items():
            names.setdefault(k, "block/region key")
            if isinstance(b, SyntheticBranch):
                names.setdefault(b.variable, "control variable")
            elif isinstance(b, SyntheticAssignment):
                for v in b.variable_assignment:
                    names.setdefault(v, "control variable")
        r = getattr(sc, "region", None)
        if r is not None:
            names.setdefault(r.name, "region of a graph")
    return names


def install(save):
    from numba_scfg.core.datastructures.scfg import SCFG, NameGenerator

    o_post = save(SCFG, "__post_init__")
    o_add = save(SCFG, "add_block")

    def __post_init__(self):
        e = entry(self.name_gen)
        e["graphs"].append(self)
        core.CTX.hit("M-names.graph_registered")
        return o_post(self)

    SCFG.__post_init__ = __post_init__

    def make(fname, orig):
        def wrapper(self, kind):
            ctx = core.CTX
            name = orig(self, kind)
            e = entry(self)
            ctx.hit("M-names.handed_out")
            ctx.hit("M-names." + fname)
            if name in e["set"]:
                ctx.violation("C18", "name_handed_out_twice", {"name": name, "kind": kind,
                                                              "fn": fname})
            else:
                pres = present_names(e)
                if name in pres:
                    ctx.violation("C18", "generated_name_already_present",
                                  {"name": name, "kind": kind, "fn": fname, "as": pres[name]},
                                  mech=ctx.data.get("c18_phase"))
            e["set"].add(name)
            e["handed"].append((fname, kind, name))
            return name
        wrapper.__name__ = fname
        wrapper.__wrapped__ = orig
        return wrapper

    for fname in ("new_block_name", "new_region_name", "new_var_name"):
        setattr(NameGenerator, fname, make(fname, save(NameGenerator, fname)))

    def add_block(self, basic_block):
        ctx = core.CTX
        old = self.graph.get(basic_block.name)
        if old is not None and type(old) is not type(basic_block):
            ctx.violation("C18", "existing_block_overwritten",
                          {"name": basic_block.name, "old": type(old).__name__,
                           "new": type(basic_block).__name__},
                          mech=ctx.data.get("c18_phase"))
        ctx.hit("M-names.add_block")
        return o_add(self, basic_block)

    SCFG.add_block = add_block
