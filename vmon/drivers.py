"""Workload drivers: they only *call the library*; the attached monitors watch."""
import re
import sys

from . import core, attach


def make_scfg(g, payload="basic", how="ctor", backedges=None):
    """how: 'ctor' = SCFG(graph) ; 'add_block' = an empty SCFG() filled block by
    block through the public add_block (how FlowInfo.build_basicblocks
    assembles its graph); 'assign' = an empty SCFG() whose public graph dict is
    written directly (never used for names of the generator's own shape: only
    the constructor and add_block can reserve those)."""
    from numba_scfg.core.datastructures.scfg import SCFG
    from numba_scfg.core.datastructures.basic_block import (
        BasicBlock,
        PythonBytecodeBlock,
        PythonASTBlock,
    )

    graph = {}
    be = backedges or {}
    for i, (k, v) in enumerate(g.items()):
        if payload == "basic":
            graph[k] = BasicBlock(name=k, _jump_targets=tuple(v), backedges=tuple(be.get(k, ())))
        elif payload == "bytecode":
            graph[k] = PythonBytecodeBlock(
                name=k, _jump_targets=tuple(v), begin=2 * i, end=2 * i + 2,
                backedges=tuple(be.get(k, ()))
            )
        elif payload == "ast":
            import ast

            tree = [ast.parse(f"v{i} = {i}").body[0]]
            if len(v) == 2:
                tree.append(ast.parse(f"c{i} < {i}").body[0].value)
            elif len(v) == 0:
                tree.append(ast.parse(f"return r{i}").body[0])
            graph[k] = PythonASTBlock(name=k, _jump_targets=tuple(v), tree=tree)
        else:
            raise ValueError(payload)
    if how == "add_block":
        scfg = SCFG()
        for b in graph.values():
            scfg.add_block(b)
        return scfg
    if how == "assign":
        scfg = SCFG()
        for b in graph.values():
            scfg.graph[b.name] = b
        return scfg
    return SCFG(graph)


_PLAIN = re.compile(r"[A-Za-z0-9_]+")
_GENERATED = re.compile(r"(_block_|_region_|__scfg_)")


def how_for(g):
    """Construction path of a graph case, a pure function of the graph (the
    same in every process): one graph in four is assembled with add_block, one in four by writing the graph dict."""
    r = int(core.graph_hash(g)[:8], 16) % 4
    if r == 0:
        return "add_block"
    if r == 1 and not any(_GENERATED.search(k) for k in g):
        return "assign"
    return "ctor"


def run_stages(scfg, stages="JLB", ctx=None):
    """Call the public stage methods one by one.  Exceptions end the pipeline
    (they were already recorded by M-stage).  Returns the list of stages that
    completed."""
    done = []
    table = {
        "J": "join_returns",
        "L": "restructure_loop",
        "B": "restructure_branch",
    }
    for s in stages:
        try:
            getattr(scfg, table[s])()
        except RecursionError:
            (ctx or core.CTX).hit("driver.recursion_error")
            break
        except Exception:
            break
        done.append(s)
    return done


def reload_plan(g, payload):
    """Whether (and where, how) this graph case is written out and read back
    between two stages; a pure function of the graph.  -> (after_stage, how) or None"""
    if payload == "ast":
        return None  # an AST payload cannot be written (C15 scope)
    r = int(core.graph_hash(g)[8:12], 16) % 8
    plan = {0: ("L", "dict"), 1: ("L", "yaml"), 2: ("J", "dict")}.get(r)
    if plan and plan[1] == "yaml" and not all(_PLAIN.fullmatch(k) for k in g):
        # names no front end or generator produces (blanks, non-ASCII, empty):
        # their YAML spelling is outside C15's statement; go through the dict
        plan = (plan[0], "dict")
    return plan


def run_stages_reload(scfg, stages, ctx, plan):
    """run_stages with one write/read round trip after stage plan[0].
    -> (done, the graph object the last stage ran on)"""
    from numba_scfg.core.datastructures.scfg import SCFG

    done = []
    for s in stages:
        d = run_stages(scfg, s, ctx)
        if not d:
            break
        done += d
        if plan and s == plan[0] and s != stages[-1]:
            try:
                if plan[1] == "dict":
                    new, _ = SCFG.from_dict(scfg.to_dict())
                else:
                    new, _ = SCFG.from_yaml(scfg.to_yaml())
            except Exception:
                (ctx or core.CTX).hit("driver.reload_failed")  # C15's business
                continue
            attach.retrack(scfg, new)
            (ctx or core.CTX).hit("driver.reloaded_between_stages." + plan[1])
            scfg = new
    return done, scfg


def run_graph_case(g, props, payload="basic", stages="JLB", case_id=None, cap=None):
    """One case: build the graph, run the stages under the monitors."""
    ctx = core.set_ctx(core.Ctx(case_id))
    attach.ACTIVE.clear()
    attach.ACTIVE.update(props)
    if cap:
        attach.OPTS["cap"] = cap
    scfg = make_scfg(g, payload)
    done = run_stages(scfg, stages, ctx)
    ctx.data["done"] = done
    ctx.data["scfg"] = scfg
    return ctx
