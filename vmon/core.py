"""Shared plumbing: violation type, per-case context, environment setup.

Nothing in here knows about a particular property.
"""
import collections
import hashlib
import json
import logging
import os
import sys

GUARD = "NUMBA_SCFG_VERIF"
VERIF_DIR = os.path.dirname(os.path.dirname(os.path.abspath(__file__)))
REPO_DIR = os.environ.get("VMON_REPO", "/repo")


class Viol(Exception):
    """A refuting observation made by an oracle."""

    def __init__(self, prop, kind, detail=None):
        super().__init__(f"{prop}:{kind}: {detail!r}")
        self.prop = prop
        self.kind = kind
        self.detail = detail


class Inconclusive(Exception):
    """An oracle could not decide (cap hit, precondition of the oracle not met)."""

    def __init__(self, reason, detail=None):
        super().__init__(f"{reason}: {detail!r}")
        self.reason = reason
        self.detail = detail


def jsonable(x, depth=0):
    """Best-effort conversion of oracle details to JSON."""
    if depth > 6:
        return repr(x)
    if isinstance(x, (str, int, float, bool)) or x is None:
        return x
    if isinstance(x, (list, tuple, set, frozenset)):
        seq = list(x)
        if isinstance(x, (set, frozenset)):
            seq = sorted(seq, key=repr)
        return [jsonable(i, depth + 1) for i in seq]
    if isinstance(x, dict):
        return {str(k): jsonable(v, depth + 1) for k, v in x.items()}
    return repr(x)


class Ctx:
    """What the monitors observed while one case ran."""

    def __init__(self, case_id=None):
        self.case_id = case_id
        self.findings = []  # dicts: prop, kind, detail, stage, mech
        self.counters = collections.Counter()
        self.events = []  # bounded trace of monitor events
        self.inconclusive = []
        self.stage = None
        self.max_events = 400
        self.data = {}  # free-form per-case storage for monitors

    def hit(self, name, n=1):
        self.counters[name] += n

    def event(self, monitor, event, data=None):
        if len(self.events) < self.max_events:
            self.events.append(
                {"seq": len(self.events), "monitor": monitor, "event": event,
                 "data": jsonable(data)}
            )

    def violation(self, prop, kind, detail=None, stage=None, mech=None):
        self.findings.append(
            {
                "prop": prop,
                "kind": kind,
                "detail": jsonable(detail),
                "stage": stage if stage is not None else self.stage,
                "mech": mech,
            }
        )

    def viol(self, v, stage=None, mech=None):
        self.violation(v.prop, v.kind, v.detail, stage=stage, mech=mech)

    def inconc(self, reason, detail=None):
        self.inconclusive.append({"reason": reason, "detail": jsonable(detail),
                                  "stage": self.stage})


# The context monitors write to.  Workload drivers swap it per case.
CTX = Ctx("<none>")


def set_ctx(ctx):
    global CTX
    CTX = ctx
    return ctx


def get_ctx():
    return CTX


def setup_env():
    """Called once per worker: make /repo importable, silence its logging."""
    if REPO_DIR not in sys.path:
        sys.path.insert(0, REPO_DIR)
    deps = os.path.join(VERIF_DIR, ".deps")
    if os.path.isdir(deps) and deps not in sys.path:
        sys.path.append(deps)
    import numba_scfg  # noqa

    here = os.path.realpath(os.path.dirname(numba_scfg.__file__))
    want = os.path.realpath(os.path.join(REPO_DIR, "numba_scfg"))
    if here != want:
        raise RuntimeError(f"numba_scfg imported from {here}, expected {want}")
    try:
        import numba_scfg.rendering.rendering  # noqa  (does basicConfig(DEBUG))
    except Exception:
        pass
    if os.environ.get("VMON_LOGFORMAT") == "1":
        # configuration dimension: DEBUG records of the library are FORMATTED
        # (numba_scfg.rendering does logging.basicConfig(level=DEBUG) at import,
        # so this is what any process that has rendered a graph looks like);
        # the text is thrown away
        logging.disable(logging.NOTSET)
        root = logging.getLogger()
        for h in list(root.handlers):
            root.removeHandler(h)

        class _Sink(logging.Handler):
            def emit(self, record):
                try:
                    self.format(record)
                except Exception:
                    pass

        root.addHandler(_Sink(level=logging.DEBUG))
        root.setLevel(logging.DEBUG)
    else:
        logging.disable(logging.CRITICAL)


def sha(obj):
    s = json.dumps(jsonable(obj), sort_keys=True, separators=(",", ":"))
    return hashlib.sha1(s.encode()).hexdigest()[:16]


def graph_hash(g):
    """Canonical hash of a plain name->successors graph."""
    return sha(sorted((k, list(v)) for k, v in g.items()))
