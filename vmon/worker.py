"""python -m vmon.worker <check id> <spec.json> <out.json>"""
import importlib
import json
import sys

from . import core


def load_check(check_id):
    return importlib.import_module("vmon.checks." + check_id.lower())


def main(argv):
    check_id, specf, outf = argv
    sys.setrecursionlimit(20000)
    core.setup_env()
    with open(specf) as f:
        spec = json.load(f)
    check = load_check(check_id)
    check = getattr(check, "CHECK", check)
    if spec.get("kind") == "shrink":
        from . import shrink

        small = shrink.shrink_case(check, spec["case"], spec["key"], spec.get("budget", 60.0))
        res = {"shrunk": small}
    else:
        res = check.run_shard(spec)
    with open(outf, "w") as f:
        json.dump(core.jsonable(res), f)


if __name__ == "__main__":
    main(sys.argv[1:])
