"""python -m vmon.worker <check id> <spec.json> <out.json>"""
import importlib
import os
import json
import sys

from . import core


def load_check(check_id):
    return importlib.import_module("vmon.checks." + check_id.lower())


def main(argv):
    check_id, specf, outf = argv
    sys.setrecursionlimit(20000)
    # a generated program may grow a list without bound (thorough tier, seed 2:
    # one worker reached 48 GB and was killed by the kernel); with an address
    # space limit the program gets a MemoryError instead - an exception like
    # any other, raised on both sides of a comparison
    try:
        import resource

        lim = int(os.environ.get("VMON_WORKER_MEM_MB", "6000")) * 1024 * 1024
        resource.setrlimit(resource.RLIMIT_AS, (lim, lim))
    except Exception:
        pass
    core.setup_env()
    with open(specf) as f:
        spec = json.load(f)
    check = load_check(check_id)
    check = getattr(check, "CHECK", check)
    if spec.get("kind") == "shrink":
        from . import shrink

        small = shrink.shrink_case(check, spec["case"], spec["key"], spec.get("budget", 60.0))
        res = {"shrunk": small}
    else:
        res = check.run_shard(spec)
    with open(outf, "w") as f:
        json.dump(core.jsonable(res), f)


if __name__ == "__main__":
    main(sys.argv[1:])
