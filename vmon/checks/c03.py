"""C03 The restructured graph is structured (DESIGN section 10, C03)."""
from .graphbase import GraphCheck


def nontrivial(f, ctx, tr):
    return f["region_loop"] > 0 or f["region_head"] > 0


CHECK = GraphCheck(
    "C03",
    oracles={"C03"},
    exh_quick_full=True,
    rule=(
        "cases as C02; after the full pipeline the structuredness walker checks every level "
        "(acyclic without declared back edges, loop regions single-entry/single-latch, every "
        "multi-successor block is the exiting block of a head region continuing to distinct branch "
        "regions with one common tail). distinct = hash of the input graph; non-trivial = the "
        "result contains at least one loop or head region"
    ),
    nontrivial=nontrivial,
    deciding=["oracle.C03.structure"],
)
