"""C08 The graph built from source means what the source means."""
import ast
import collections

from .. import core, attach
from ..attach import exc_key
from ..core import Viol
from ..progharness import make_from_src
from ..workloads import programs
from ..oracles import astsem
from .base import ShardAcc
from . import progbase

PROPERTY = "C08"
LEVEL = "translation_validation"
EXHAUSTIVE = False
RULE = (
    "cases: the generated program classes of C07 plus stdlib source functions; the real "
    "AST2SCFGTransformer builds the block graph from a pre-stamped AST; a block-level interpreter "
    "(exec the block's statements in one namespace; two successors -> evaluate the last expression; "
    "stop at Return) is run against CPython on 3 argument tuples x all enumerated decision tapes, "
    "comparing return repr, exception type (NameError family merged) and the ordered ext/d/it log; "
    "census: every stamped simple statement sits in exactly one block or in ASTCFG.unreachable, "
    "pruned ones are dead by an independent completes-normally analysis, every jump target names a "
    "block (stdlib functions: census only). distinct = hash of the source; non-trivial = the "
    "program has at least one if/while/for and at least 2 runs were compared (stdlib: has a "
    "compound statement)"
)
ASSUMPTIONS = [
    "CPython executing the original source is the reference model",
    "the block interpreter of vmon/oracles/astsem.py implements the statement's reading of the graph",
    "NameError and UnboundLocalError are merged (the interpreter has no fast locals)",
]
DECIDING_COUNTERS = ["comparisons", "M-a2s.transform", "oracle.C08.census"]
INCONCLUSIVE_TOLERANCE = 0.02
SHARD_TIMEOUT = {"quick": 900, "thorough": 7200}


def plan(tier, seed):
    return progbase.plan_programs(tier, seed)


def run_case(case, acc, tier):
    from numba_scfg.core.datastructures.ast_transforms import AST2SCFGTransformer

    ctx = core.set_ctx(core.Ctx(case.get("id") or case.get("origin")))
    attach.ACTIVE.clear()
    src = case["src"]
    cls = case["cls"]
    acc.counters["class." + cls] += 1
    if progbase.boolop_hoisting_prone(src):
        ctx.data.setdefault("flags", set()).add("boolop-hoisted-out-of-expression")
    if progbase.shadows_for_builtins(src):
        ctx.data.setdefault("flags", set()).add("for-lowering-reads-shadowed-builtin")
    tree = ast.parse(src)
    fn = tree.body[0]
    ref_tree = ast.parse(src).body[0]  # untouched copy for the reachability analysis
    stamps = astsem.stamp_source(fn)
    # mirror the stamps onto the untouched copy (same walk order)
    for a, b in zip(ast.walk(fn), ast.walk(ref_tree)):
        if hasattr(a, "_vid"):
            b._vid = a._vid
    argnames = [a.arg for a in fn.args.args]
    defaults = {}
    for a, dflt in zip(reversed(fn.args.args), reversed(fn.args.defaults)):
        try:
            defaults[a.arg] = ast.literal_eval(dflt)
        except Exception:
            pass
    try:
        t = AST2SCFGTransformer([fn])
        astcfg = t.transform_to_ASTCFG()
    except NotImplementedError:
        acc.counters["refused"] += 1
        acc.add_ctx(ctx, case)
        return
    except Exception as e:
        k = exc_key(e)
        ctx.violation("C08", f"front_end_raised:{k['type']}@{k['site']}", k,
                      mech=progbase.mech_of(ctx))
        acc.add_ctx(ctx, case)
        return
    acc.counters["accepted"] += 1
    # history: building the graph of the same source again (same process) gives
    # the same graph - nothing may be cached or mutated by the first pass
    try:
        from ..hier import dump as _dump
        g1 = AST2SCFGTransformer(src).transform_to_SCFG()
        g2 = AST2SCFGTransformer(src).transform_to_SCFG()
        acc.counters["repeated_front_end_passes"] += 1
        if _dump(g1, with_payload=True) != _dump(g2, with_payload=True):
            ctx.violation("C08", "second_graph_of_same_source_differs", None,
                          mech=progbase.mech_of(ctx))
        # the public entry point builds the same graph (twice)
        from numba_scfg.core.datastructures.ast_transforms import AST2SCFG
        for _ in range(2):
            g3 = AST2SCFG(src)
            acc.counters["entry_point_graphs_compared"] += 1
            if _dump(g1, with_payload=True) != _dump(g3, with_payload=True):
                ctx.violation("C08", "entry_point_graph_differs_from_transformer_graph", None,
                              mech=progbase.mech_of(ctx))
                break
    except Exception as e:
        k = exc_key(e)
        ctx.violation("C08", f"repeated_front_end_raised:{k['type']}@{k['site']}", k)
    # census (the stamped nodes live in `fn`; liveness is computed on the
    # untouched copy and mapped through the stamps)
    ctx.hit("oracle.C08.census")
    try:
        ref_stamps = {}
        for n in ast.walk(ref_tree):
            if hasattr(n, "_vid"):
                ref_stamps[n._vid] = n
        live, _ = astsem.live_statements(ref_tree)
        live_vids = {vid for vid, n in ref_stamps.items() if id(n) in live}
        for n in ast.walk(ref_tree):
            if isinstance(n, (ast.If, ast.While)) and id(n) in live \
                    and getattr(n.test, "_vid", None) is not None:
                live_vids.add(n.test._vid)
        st = census_with(astcfg, stamps, live_vids)
        acc.counters["census_statements"] += st["stmts"]
        acc.counters["census_dead_statements"] += st["dead"]
    except Viol as v:
        ctx.violation(v.prop, v.kind, v.detail, mech=progbase.mech_of(ctx))
    nt = None
    f = programs.features(src)
    if cls != "realsrc":
        entry = "0" if "0" in astcfg else min(astcfg, key=lambda s: int(s))
        try:
            interp = astsem.make_cfg_interp(astcfg, argnames, defaults, entry, signature=fn.args)
        except Exception as e:
            ctx.violation("C08", "block_does_not_compile", repr(e)[:200], mech=progbase.mech_of(ctx))
            acc.add_ctx(ctx, case)
            return
        makers = collections.OrderedDict()
        makers["ref"] = make_from_src(src, "f")
        makers["cfg"] = interp
        diff, runs, fuel = progbase.differential(ctx, makers, cls, tier, True, src)
        acc.counters["comparisons"] += runs
        acc.counters["fuel_runs"] += fuel
        if diff is not None:
            ctx.violation("C08", "graph_semantics_differ:" + diff["aspect"], diff,
                          mech=progbase.mech_of(ctx))
        if runs - fuel >= 2 and (f["ifs"] + f["whiles"] + f["fors"]) > 0:
            nt = core.sha(src)
    else:
        if (f["ifs"] + f["whiles"] + f["fors"]) > 0:
            nt = core.sha(src)
    acc.add_ctx(ctx, case, nontrivial_hash=nt, sample=(acc.evaluations % 211 == 0))


def census_with(astcfg, stamps, live_vids):
    where = {}
    for k, b in astcfg.items():
        for ins in b.instructions:
            vid = getattr(ins, "_vid", None)
            if vid is not None:
                where.setdefault(vid, []).append(("block", k))
            if isinstance(ins, ast.Expr):
                # a test that lost its branch is kept as an expression statement
                vid = getattr(ins.value, "_vid", None)
                if vid is not None and getattr(ins, "_vid", None) is None:
                    where.setdefault(vid, []).append(("block", k))
        for t in b.jump_targets:
            if t not in astcfg:
                raise Viol("C08", "jump_target_names_no_block", (k, t))
        if len(b.jump_targets) > 2:
            raise Viol("C08", "more_than_two_successors", (k, b.jump_targets))
    for b in getattr(astcfg, "unreachable", ()) or ():
        for ins in b.instructions:
            vid = getattr(ins, "_vid", None)
            if vid is not None:
                where.setdefault(vid, []).append(("unreachable", b.name))
            if isinstance(ins, ast.Expr) and getattr(ins.value, "_vid", None) is not None \
                    and getattr(ins, "_vid", None) is None:
                where.setdefault(ins.value._vid, []).append(("unreachable", b.name))
    stats = {"stmts": 0, "dead": 0}
    for vid, (kind, node) in stamps.items():
        if kind == "noop":
            continue
        stats["stmts"] += 1
        w = where.get(vid, [])
        is_live = vid in live_vids
        if len(w) > 1:
            raise Viol("C08", "statement_in_two_blocks", (ast.unparse(node), w))
        if not w:
            raise Viol("C08", "statement_lost", (ast.unparse(node), "live" if is_live else "dead"))
        if w[0][0] == "unreachable":
            stats["dead"] += 1
            if is_live:
                raise Viol("C08", "reachable_statement_pruned", (ast.unparse(node), w))
        elif not is_live:
            raise Viol("C08", "dead_statement_in_reachable_block", (ast.unparse(node), w))
    return stats


def run_shard(spec):
    attach.install(("a2s",))
    acc = ShardAcc(PROPERTY)
    tier = spec.get("tier", "quick")
    for case in progbase.iter_cases(spec):
        progbase.run_with_faults(PROPERTY, run_case, case, acc, tier)
    return acc.result()


def coverage_extra(m, tier):
    c = m["counters"]
    return {"programs": int(m["evaluations"]),
            "disagreements_checked": int(c.get("comparisons", 0))}
