"""C15 Dictionary and YAML serialisation round-trips every graph."""
from .. import attach
from .graphbase import GraphCheck, GEN_CLASSES


def nontrivial(f, ctx, tr):
    return f["regions"] > 0 and f["branching"] > 0


class _C15(GraphCheck):
    def run_shard(self, spec):
        attach.OPTS["serial_chain"] = 1 if spec.get("tier") == "quick" else 3
        return super().run_shard(spec)

    def cases(self, spec):
        for case in super().cases(spec):
            if case.get("payload") == "ast":
                case = dict(case)
                case["payload"] = "bytecode"  # AST payloads are outside the statement's list
            yield case


CHECK = _C15(
    "C15",
    oracles={"C15"},
    rule=(
        "cases: the C01 graph classes with plain and bytecode-range payloads and stdlib bytecode "
        "CFGs (names as the front ends and the name generator produce them); the flat input and "
        "the hierarchy after every stage are written with to_dict / to_yaml, read back, compared "
        "with the original by a harness-owned structural equality (names, types, payload fields, "
        "ordered successors, back edges, tables, assignments, nesting, kinds, headers, exitings) "
        "and written again (chains of 1 (quick) or 3 (thorough) write-read rounds). distinct = "
        "hash of the input graph; non-trivial = the serialised hierarchy contains a region and a "
        "branching block"
    ),
    nontrivial=nontrivial,
    deciding=["oracle.C15.roundtrip"],
    profile=("stage", "table"),
    classes=[(c, max(50, q // 5), max(500, t // 5), p) for c, q, t, p in GEN_CLASSES],
    use_byteflow=True,
    extra_assumptions=["graphs with AST statement payloads are outside the statement's "
                       "enumeration (regions, synthetic assignment/branching blocks, bytecode blocks)"],
)
# realast class produces AST payloads: not part of this check
CHECK.with_real = True
_orig_plan = CHECK.plan


def _plan(tier, seed):
    out = []
    for s in _orig_plan(tier, seed):
        if s["kind"] == "realast":
            continue
        if tier == "quick":
            # YAML parsing dominates the cost: thin out the bulk classes
            if s["kind"] == "exh" and s["n"] == 5:
                s["stride"] = 40
                s["offset"] = seed % 40
            if s["kind"] == "realbc":
                s["limit_files"] = 80
        out.append(s)
    return out


CHECK.plan = _plan
