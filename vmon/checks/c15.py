"""C15 Dictionary and YAML serialisation round-trips every graph."""
from .. import attach
from .graphbase import GraphCheck, GEN_CLASSES


def nontrivial(f, ctx, tr):
    return f["regions"] > 0 and f["branching"] > 0


class _C15(GraphCheck):
    def run_shard(self, spec):
        attach.OPTS["serial_chain"] = 1 if spec.get("tier") == "quick" else 3
        return super().run_shard(spec)

    def cases(self, spec):
        for case in super().cases(spec):
            if case.get("payload") == "ast":
                case = dict(case)
                case["payload"] = "bytecode"  # AST payloads are outside the statement's list
            yield case


CHECK = _C15(
    "C15",
    oracles={"C15"},
    rule=(
        "cases: the C01 graph classes with plain and bytecode-range payloads and stdlib bytecode "
        "CFGs (names as the front ends and the name generator produce them); the flat input and "
        "the hierarchy after every stage are written with to_dict / to_yaml, read back, compared "
        "with the original by a harness-owned structural equality (names, types, payload fields, "
        "ordered successors, back edges, tables, assignments, nesting, kinds, headers, exitings) "
        "and written again (chains of 1 (quick) or 3 (thorough) write-read rounds); plus flat "
        "arbitrary digraphs that are not closed CFGs (all 3-node digraphs of out-degree <= 2, "
        "random ones up to 12 nodes: several or no entry blocks, dead cycles, unreachable "
        "components), written and read back directly. distinct = "
        "hash of the input graph; non-trivial = the serialised hierarchy contains a region and a "
        "branching block"
    ),
    nontrivial=nontrivial,
    deciding=["oracle.C15.roundtrip"],
    profile=("stage", "table"),
    classes=[(c, max(50, q // 5), max(500, t // 12), p) for c, q, t, p in GEN_CLASSES
             if c != "names_collide"],  # names restricted to those the front ends / generator produce
    use_byteflow=True,
    extra_assumptions=["graphs with AST statement payloads are outside the statement's "
                       "enumeration (regions, synthetic assignment/branching blocks, bytecode blocks)"],
)
# realast class produces AST payloads: not part of this check
CHECK.with_real = True
_orig_plan = CHECK.plan


def _plan(tier, seed):
    out = []
    for s in _orig_plan(tier, seed):
        if s["kind"] == "realast":
            continue
        if tier == "quick":
            # YAML parsing dominates the cost: thin out the bulk classes
            if s["kind"] == "exh" and s["n"] == 5:
                s["stride"] = 40
                s["offset"] = seed % 40
            if s["kind"] == "realbc":
                s["limit_files"] = 80
        else:
            # (thorough, seed 3: not finished after 2 h on 10 cores with chains
            # of 3 write-read rounds through YAML on every graph of n=5)
            if s["kind"] == "exh" and s["n"] == 5 and not s.get("faults"):
                s["stride"] = 4
                s["offset"] = seed % 4
            if s["kind"] == "exh_sample":
                s["count"] = max(1, s["count"] // 3)
        out.append(s)
    return out




# ---------------------------------------------------------------- flat digraphs
# "Every graph the library can build": SCFG(graph) accepts any block dict, not
# only closed CFGs.  Flat graphs with several entries, no entry at all (the
# first block is a loop header), dead cycles and unreachable components are
# written and read back directly (no stage is run on them).
import itertools as _it
import random as _random

from .. import core as _core
from ..attach import run_oracle as _run_oracle
from .base import ShardAcc as _ShardAcc
from . import predeclared as _pre
from . import opfaults as _opf


def _serial_victim(scfg):
    from numba_scfg.core.datastructures.scfg import SCFG

    def op():
        SCFG.from_dict(scfg.to_dict())
        SCFG.from_yaml(scfg.to_yaml())
    return op


def _serial_oracle(scfg):
    from ..oracles.serial import check_roundtrip

    return check_roundtrip(scfg, 1)

_plan1 = _plan
_run1 = CHECK.run_shard


def _plan2(tier, seed):
    out = _plan1(tier, seed)
    quick = tier == "quick"
    out.append({"kind": "flat_exh", "n": 3, "tier": tier})
    total = 1500 if quick else 24000
    per = 250 if quick else 3000
    for start in range(0, total, per):
        out.append({"kind": "flat_rand", "seed": seed, "start": start, "count": per, "tier": tier})
    # graphs that arrive with back edges declared and are restructured afterwards
    out += _pre.plan(tier, seed, 400, 6000)
    out += _opf.plan(tier, seed, 300, 5000)
    total = 600 if quick else 8000
    for start in range(0, total, 200 if quick else 2000):
        out.append({"kind": "refused_stage", "seed": seed, "start": start,
                    "count": 200 if quick else 2000, "tier": tier})
    return out


def _flat_case(gd, acc, payload, chain, be=None):
    from .. import drivers
    from ..oracles.serial import check_roundtrip

    ctx = _core.set_ctx(_core.Ctx(None))
    scfg = drivers.make_scfg(gd, payload, drivers.how_for(gd), backedges=be)
    if be:
        acc.counters["flat_digraphs.with_declared_backedges"] += 1
        if any(len(v) > 1 and [t for t in gd[k] if t in v] != list(v) for k, v in be.items()):
            acc.counters["flat_digraphs.backedge_order_differs_from_targets"] += 1
    if any(len(set(v)) != len(v) for v in gd.values()):
        acc.counters["flat_digraphs.with_parallel_arcs"] += 1
    ctx.hit("oracle.C15.roundtrip")
    _run_oracle(ctx, "C15.roundtrip_flat", check_roundtrip, scfg, chain)
    preds = {t for v in gd.values() for t in v}
    entries = [k for k in gd if k not in preds]
    acc.counters["flat_digraphs"] += 1
    acc.counters["flat_digraphs.entries_%s" % min(len(entries), 2)] += 1
    case = {"kind": "flatdigraph", "g": gd, "payload": payload}
    if be:
        case["backedges"] = {k: list(v) for k, v in be.items()}
    acc.add_ctx(ctx, case, nontrivial_hash=_core.graph_hash(gd) if any(gd.values()) else None,
                sample=(acc.evaluations % 997 == 0))


def _refused_stage_case(i, seed, acc, chain):
    """A graph with a loop that nothing leaves (`while True:` without break):
    restructure_loop refuses it (StopIteration) - after it may have wrapped
    other loops of the same graph.  What it leaves is a graph the library
    produced: it is written and read back."""
    from .. import drivers
    from ..oracles.serial import check_roundtrip
    from ..workloads import graphs as _g

    rng = _random.Random(f"c15r/{seed}/{i}")
    g = _g.make_case(rng.choice(["loop", "struct", "rand_small", "rand"]), seed, 800000 + i)
    if g is None:
        return
    g = dict(g)
    hosts = [k for k, v in g.items() if len(v) == 1]
    if not hosts:
        return
    h = rng.choice(hosts)
    n = rng.randint(1, 3)
    zs = [f"z{j}" for j in range(n)]
    g[h] = g[h] + (zs[0],)
    for j, z in enumerate(zs):
        g[z] = (zs[(j + 1) % n],) if n > 1 or True else ()
    if n == 1:
        g[zs[0]] = (zs[0],)
    ctx = _core.set_ctx(_core.Ctx(None))
    attach.ACTIVE.clear()
    scfg = drivers.make_scfg(g, rng.choice(["basic", "bytecode"]))
    refused = None
    for nm in ("join_returns", "restructure_loop", "restructure_branch"):
        try:
            getattr(scfg, nm)()
        except Exception as e:
            refused = (nm, type(e).__name__)
            break
    acc.counters["refused_stage.graphs"] += 1
    acc.counters["refused_stage.%s" % ("%s_%s" % refused if refused else "accepted")] += 1
    ctx.hit("oracle.C15.roundtrip")
    _run_oracle(ctx, "C15.roundtrip_after_refused_stage", check_roundtrip, scfg, chain)
    case = {"kind": "refused_stage", "seed": seed, "index": i}
    acc.add_ctx(ctx, case, nontrivial_hash=_core.graph_hash(g), sample=(acc.evaluations % 199 == 0))


def _run2(spec):
    k = spec["kind"]
    if k == "refused_stage" or (k == "single" and spec["case"].get("kind") == "refused_stage"):
        attach.install(CHECK.profile)
        acc = _ShardAcc("C15")
        chain = 1 if spec.get("tier", "quick") == "quick" else 3
        if k == "single":
            _refused_stage_case(spec["case"]["index"], spec["case"]["seed"], acc, chain)
        else:
            for i in range(spec["start"], spec["start"] + spec["count"]):
                _refused_stage_case(i, spec["seed"], acc, chain)
        return acc.result()
    if k == "opfaults" or (k == "single" and spec["case"].get("kind") == "opfault"):
        return _opf.run_shard(spec, "C15", CHECK.profile, _serial_victim, _serial_oracle, None,
                              payload="bytecode")
    if k == "predeclared" or (k == "single" and spec["case"].get("kind") == "predeclared"):
        attach.OPTS["serial_chain"] = 1 if spec.get("tier", "quick") == "quick" else 3
        return _pre.run_shard(spec, "C15", CHECK.profile)
    if k not in ("flat_exh", "flat_rand") and not (
            k == "single" and spec["case"].get("kind") == "flatdigraph"):
        return _run1(spec)
    attach.install(CHECK.profile)
    attach.ACTIVE.clear()
    acc = _ShardAcc("C15")
    chain = 1 if spec.get("tier", "quick") == "quick" else 3
    if k == "single":
        c = spec["case"]
        _flat_case({a: tuple(b) for a, b in c["g"].items()}, acc, c.get("payload", "basic"), chain,
                   {a: tuple(b) for a, b in (c.get("backedges") or {}).items()} or None)
    elif k == "flat_exh":
        # every digraph on n nodes with out-degree <= 2 (ordered, no duplicate targets)
        names = [str(i) for i in range(spec["n"])]
        opts = [()] + [(a,) for a in names] + [p for p in _it.permutations(names, 2)]
        for combo in _it.product(opts, repeat=len(names)):
            gd = dict(zip(names, combo))
            _flat_case(gd, acc, "basic", chain)
            # the same graph with every arc that does not go forward declared
            # a back edge, listed in the reverse of the target order
            be = {k: tuple(t for t in reversed(v) if t <= k) for k, v in gd.items()}
            be = {k: v for k, v in be.items() if v}
            if be:
                _flat_case(gd, acc, "basic", chain, be)
        acc.counters["flat_exhaustive.n%d" % spec["n"]] += acc.evaluations
    else:
        for i in range(spec["start"], spec["start"] + spec["count"]):
            rng = _random.Random(f"c15f/{spec['seed']}/{i}")
            n = rng.randint(2, 12)
            names = [str(j) for j in range(n)]
            if rng.random() < 0.3:
                rng.shuffle(names)
            gd = {}
            dup = rng.random() < 0.2
            for nm in names:
                d = rng.choice([0, 1, 1, 2, 2, 3] if dup else [0, 1, 1, 2, 2])
                gd[nm] = (tuple(rng.choice(names) for _ in range(d)) if dup
                          else tuple(rng.sample(names, min(d, n))))
            be = None
            if rng.random() < 0.5:
                # declared back edges: any subset of a block's targets, in any order
                be = {}
                for nm in names:
                    ts = list(dict.fromkeys(gd[nm]))
                    pick = [t for t in ts if rng.random() < 0.4]
                    rng.shuffle(pick)
                    if pick:
                        be[nm] = tuple(pick)
            _flat_case(gd, acc, rng.choice(["basic", "bytecode"]), chain, be or None)
    return acc.result()


CHECK.plan = _plan2
CHECK.run_shard = _run2


# repeated-stage histories (the branch stage / the whole pipeline a second time
# on the same object): this property's oracle reads the result alone and holds
# there on the unchanged tree (the reference-model and hierarchy oracles do
# not: a structure that is restructured again is outside their domain)
CHECK.repeat_histories = True
CHECK.repeat_oracles = {"C15"}
