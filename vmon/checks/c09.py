"""C09 The graph built from bytecode is exactly the bytecode's control flow.

Stdlib-only worker code (runs under /venv 3.12 and /usr/bin/python3.11)."""
import collections
import dis
import os
import sys

from .. import core
from ..attach import exc_key
from ..core import Viol
from ..workloads import corpus
from .base import ShardAcc

PROPERTY = "C09"
LEVEL = "exploration"
EXHAUSTIVE = False
RULE = (
    "cases: every eligible code object (no exception table, raise, generator/coroutine) of the "
    "standard library of each available interpreter (3.12.1 of /venv always, /usr/bin/python3.11 "
    "when present), incl. nested functions, lambdas and comprehensions; ByteFlow.from_bytecode is "
    "run on each and its result is checked against dis/opcode ground truth (contiguous gap-free "
    "cover, entry only at first / exit only after last instruction, ordered successors == "
    "successors of the last instruction, never raises); generated functions are additionally "
    "*executed* under instruction-level tracing and every observed transfer must be an edge of the "
    "built graph. distinct = (file, qualname, first line, interpreter); non-trivial = the code "
    "object has at least one jump instruction"
)
ASSUMPTIONS = [
    "dis.get_instructions, opcode.hasjrel/hasjabs of the running interpreter are the ground truth",
    "name lists for unconditional jumps / returns / raisers in vmon/workloads/corpus.py (A.10); "
    "the dynamic trace monitor cross-checks them",
    "a conditional jump whose target equals its fall-through has one successor",
]
DECIDING_COUNTERS = ["oracle.C09.static"]
SHARD_TIMEOUT = {"quick": 900, "thorough": 3600}
PY311 = "/usr/bin/python3.11"
REBUILD_EVERY = 3


def plan(tier, seed):
    shards = []
    nsh = 16
    limit = 250 if tier == "quick" else None
    for s in range(nsh):
        shards.append({"kind": "stdlib", "shard": s, "nshards": nsh, "limit_files": limit,
                       "tier": tier})
    shards.append({"kind": "dynamic", "seed": seed, "count": 150 if tier == "quick" else 3000,
                   "tier": tier})
    if os.path.exists(PY311):
        for s in range(nsh):
            shards.append({"kind": "stdlib", "shard": s, "nshards": nsh, "limit_files": limit,
                           "tier": tier, "_python": PY311,
                           "_env": {"PYTHONPATH": core.REPO_DIR + ":" + core.VERIF_DIR}})
        shards.append({"kind": "dynamic", "seed": seed, "count": 150 if tier == "quick" else 3000,
                       "tier": tier, "_python": PY311,
                       "_env": {"PYTHONPATH": core.REPO_DIR + ":" + core.VERIF_DIR}})
    return shards


def _find_code(origin):
    path, qual, line = origin.rsplit(":", 2)
    for co in corpus.code_objects_of_file(path):
        if co.co_qualname == qual and str(co.co_firstlineno) == line:
            return co
    return None


def fault_prefix(co, acc, origin, after_refused, inject):
    """Fault histories: right before the graph of `co` is built and checked,
    (natural) a code object outside the property's domain (exception table,
    raise, generator) is handed to the front end, whatever it answers, and/or
    (injected, 3.12 only) a build of `co` itself is aborted by an exception
    raised at a random library call."""
    from numba_scfg.core.datastructures.byte_flow import ByteFlow

    if after_refused is not None:
        bad = after_refused if not isinstance(after_refused, str) else _find_code(after_refused)
        if bad is not None:
            try:
                ByteFlow.from_bytecode(bad)
                acc.counters["M-fault.out_of_domain_code_accepted"] += 1
            except Exception:
                acc.counters["M-fault.natural_refusals"] += 1
    if inject and hasattr(sys, "monitoring"):
        import random

        from ..monitors import fault

        fctx = core.Ctx(None)
        rng = random.Random(core.sha([origin, "fault"]))
        fault.inject_around(fctx, rng, lambda: ByteFlow.from_bytecode(co), 1, cold_key="C09")
        acc.counters.update(fctx.counters)


def check_code(co, acc, origin, ver, after_refused=None, inject=False, swap_from=None):
    from numba_scfg.core.datastructures.byte_flow import ByteFlow
    from ..oracles.bytecode import check_byteflow

    ctx = core.Ctx(origin)
    case = {"kind": "code", "origin": origin, "python": ver}
    if after_refused is not None or inject:
        fault_prefix(co, acc, origin, after_refused, inject)
        acc.counters["cases_run_after_faults"] += 1
        if after_refused is not None:
            case["after_refused"] = after_refused if isinstance(after_refused, str) else None
        case["inject"] = bool(inject)
    ctx.hit("oracle.C09.static")
    njump = 0
    for i in dis.get_instructions(co):
        if i.opcode in corpus.JUMPS:
            njump += 1
            acc.histograms["opcodes_seen"][i.opname] += 1
        elif i.opname in corpus.NOFALL:
            acc.histograms["opcodes_seen"][i.opname] += 1
    subject = co
    if swap_from is not None and not co.co_freevars and not swap_from.co_freevars:
        # history: the front end is first asked about a live function object,
        # the function's code is then replaced in place (f.__code__ = ..., what
        # hot reloaders do) and the same object is asked about again
        import types

        try:
            fn = types.FunctionType(swap_from, {})
            try:
                ByteFlow.from_bytecode(fn)
            except Exception:
                pass
            fn.__code__ = co
            subject = fn
            acc.counters["rebuilds_after_code_swap"] += 1
            case["swapped_from"] = True
        except (TypeError, ValueError):
            subject = co
    try:
        flow = ByteFlow.from_bytecode(subject)
    except Exception as e:
        key = exc_key(e)
        mech = None
        ctx.violation("C09", "from_bytecode_raised", key, mech=key["type"] + "@" + str(key["site"]))
        acc.add_ctx(ctx, case)
        return None
    try:
        st = check_byteflow(co, flow.scfg, flow)
        acc.counters["blocks_checked"] += st["blocks"]
        acc.counters["instructions_retrieved_through_blocks"] += st.get("instructions_retrieved", 0)
        acc.counters["edges_checked"] += st["edges"]
        acc.maximum("blocks_per_function", st["blocks"])
    except Viol as v:
        ctx.viol(v)
    # history: the front end is a pure function of the code object - building
    # the same object again, after the first graph was transformed in place,
    # must give a fresh graph that passes the same post-condition
    if njump and acc.evaluations % REBUILD_EVERY == 0:
        from ..hier import dump
        try:
            first = dump(flow.scfg, with_payload=True)
            try:
                flow.scfg.restructure()
            except Exception:
                pass
            flow2 = ByteFlow.from_bytecode(co)
            acc.counters["rebuilds_checked"] += 1
            if dump(flow2.scfg, with_payload=True) != first:
                ctx.violation("C09", "rebuild_of_same_code_object_differs", None)
            else:
                check_byteflow(co, flow2.scfg)
        except Viol as v:
            ctx.violation("C09", "rebuild:" + v.kind, v.detail)
        except Exception as e:
            k = exc_key(e)
            ctx.violation("C09", f"rebuild_raised:{k['type']}", k)
    acc.add_ctx(ctx, case, nontrivial_hash=core.sha([origin, ver]) if njump else None,
                sample=(acc.evaluations % 499 == 0))
    return flow


def run_shard(spec):
    acc = ShardAcc(PROPERTY)
    ver = "%d.%d" % sys.version_info[:2]
    acc.counters["interpreter." + ver] += 0
    if spec["kind"] == "stdlib":
        last_bad = None
        n_el = 0
        prev_co = None
        for path, co in corpus.stdlib_code_shard(spec["shard"], spec["nshards"],
                                                spec.get("limit_files")):
            acc.counters["code_objects_seen." + ver] += 1
            org = f"{path}:{co.co_qualname}:{co.co_firstlineno}"
            if not corpus.eligible(co):
                last_bad = org
                continue
            acc.counters["eligible." + ver] += 1
            n_el += 1
            bad = last_bad if n_el % 2 == 0 else None
            last_bad = None if bad else last_bad
            check_code(co, acc, org, ver, after_refused=bad, inject=(n_el % 5 == 0),
                       swap_from=prev_co if n_el % 3 == 1 else None)
            prev_co = co
    elif spec["kind"] == "dynamic":
        from . import c09dyn
        c09dyn.run(spec, acc, ver)
    elif spec["kind"] == "single":
        case = spec["case"]
        if case.get("kind") == "code":
            path, qual, line = case["origin"].rsplit(":", 2)
            for co in corpus.code_objects_of_file(path):
                if co.co_qualname == qual and str(co.co_firstlineno) == line:
                    check_code(co, acc, case["origin"], ver, after_refused=case.get("after_refused"),
                               inject=case.get("inject", False))
        else:
            from . import c09dyn
            c09dyn.run_single(case, acc, ver)
    return acc.result()


def coverage_extra(m, tier):
    import opcode
    seen = m["histograms"].get("opcodes_seen", {})
    allj = sorted(set(opcode.opname[o] for o in list(opcode.hasjrel) + list(opcode.hasjabs))
                  | corpus.NOFALL)
    return {
        "interpreters": {k.split(".", 1)[1]: v for k, v in m["counters"].items()
                         if k.startswith("eligible.")},
        "opcodes_of_parent_interpreter_never_seen": [o for o in allj if o not in seen],
        "python311_present": os.path.exists(PY311),
    }
