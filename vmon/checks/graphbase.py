"""Generic check over graph workloads: run the stage pipeline on every case
under the stage monitors with a given set of active oracles."""
import collections
import random
import time

from .. import core, attach, drivers
from ..workloads import graphs, corpus
from .base import ShardAcc

# (class, quick count, thorough count, payload)
GEN_CLASSES = [
    ("rand", 4000, 200000, "basic"),
    ("rand_small", 1500, 40000, "bytecode"),
    ("cons", 1000, 40000, "basic"),
    ("cons_large", 60, 3000, "basic"),
    ("struct", 2000, 60000, "ast"),
    ("struct_clean", 500, 10000, "basic"),
    ("loop", 2000, 60000, "basic"),
    ("names_shuffled", 500, 10000, "basic"),
    ("names_long", 500, 10000, "basic"),
    # input blocks named like generated blocks / regions / variables (legal
    # closed CFGs; what a graph read back between stages looks like)
    ("names_namespace", 400, 10000, "bytecode"),
    # names equal up to case / whitespace / numeric value / unicode form
    ("names_collide", 400, 10000, "basic"),
]


def features(ctx, scfg, done):
    """What restructuring did to this case (for the non-triviality rules)."""
    from numba_scfg.core.datastructures.basic_block import (
        RegionBlock, SyntheticBlock, SyntheticBranch, SyntheticHead)
    from ..hier import all_items

    f = collections.Counter()
    depth = 0
    for k, b, sc, par, d in all_items(scfg):
        depth = max(depth, d)
        if isinstance(b, RegionBlock):
            f["regions"] += 1
            f["region_" + str(b.kind)] += 1
        elif isinstance(b, SyntheticBlock):
            f["synth"] += 1
            if isinstance(b, SyntheticBranch):
                f["branching"] += 1
            if isinstance(b, SyntheticHead):
                f["heads"] += 1
    f["depth"] = depth
    f["stages_done"] = len(done)
    return f


def _nesting_ok(scfg, limit=64):
    """no region nested deeper than `limit` (a cyclic hierarchy never ends)"""
    from numba_scfg.core.datastructures.basic_block import RegionBlock

    stack = [(scfg, 0)]
    n = 0
    while stack:
        sc, d = stack.pop()
        n += 1
        if d > limit or n > 100000:
            return False
        for b in sc.graph.values():
            if isinstance(b, RegionBlock) and b.subregion is not None:
                stack.append((b.subregion, d + 1))
    return True


def sibling_graph(g, rng):
    """another graph on the same block names.  Half of the time a small
    perturbation of g itself (one arc redirected and / or all arcs into one
    block removed, which gives a second entry block: restructure_branch
    refuses it half-way) - so that the stages before the refusal hand out the
    same names as for g -, otherwise a random closed CFG of the same size
    relabelled onto the names of g."""
    names = list(g)
    n = len(names)
    if n < 3:
        return None
    if rng.random() < 0.5:
        sib = {k: tuple(v) for k, v in g.items()}
        mode = rng.choice(["redirect", "second_entry", "both"])
        if mode in ("redirect", "both"):
            srcs = [k for k, v in sib.items() if v]
            if srcs:
                k = rng.choice(srcs)
                v = list(sib[k])
                i = rng.randrange(len(v))
                cands = [t for t in names[1:] if t not in v]
                if cands:
                    v[i] = rng.choice(cands)
                    sib[k] = tuple(v)
        if mode in ("second_entry", "both"):
            victim = names[rng.randrange(1, n)]
            sib = {k: tuple(t for t in v if t != victim) for k, v in sib.items()}
        return sib
    h = graphs.rand_closed(rng, n, p2=0.5, pexit=0.15)
    if h is None:
        return None
    m = dict(zip([str(i) for i in range(n)], names))
    sib = {m[k]: tuple(m[t] for t in v) for k, v in h.items()}
    if rng.random() < 0.5:
        victim = names[rng.randrange(1, n)]
        sib = {k: tuple(t for t in v if t != victim) for k, v in sib.items()}
    return sib


class GraphCheck:
    """Instantiated by c01..c06 (and reused by others) with a property id, the
    set of oracles to activate and a non-triviality rule."""

    LEVEL = "exploration"
    EXHAUSTIVE = False
    ASSUMPTIONS = [
        "oracles of /verif/vmon/oracles are correct (cross-checked: two independent walkers, "
        "mutation runs in DESIGN section 8)",
        "inputs are closed CFGs in the sense of DESIGN section 9 (asserted by the generators)",
        "CPython 3.12.1 of /venv executes the library faithfully",
    ]
    SHARD_TIMEOUT = {"quick": 900, "thorough": 7200}
    # a product exploration that hits its state cap (2 M states, graphs of ~90
    # blocks with many independent control variables) leaves that ONE case
    # undecided; it is reported in the evidence (inconclusive_cases /
    # inconclusive_samples) and does not make the run inconclusive as long as
    # such cases stay below 1 in 10 000
    INCONCLUSIVE_TOLERANCE = 1e-4

    def __init__(self, prop, oracles, rule, nontrivial, deciding, level="exploration",
                 exh_quick_full=False, profile=("stage", "table", "step"), scale=1.0,
                 classes=None, with_real=True, stages="JLB", extra_assumptions=(),
                 per_case=None, cap_quick=300_000, cap_thorough=2_000_000, use_byteflow=False):
        self.PROPERTY = prop
        self.oracles = set(oracles)
        self.RULE = rule
        self.nontrivial = nontrivial
        self.DECIDING_COUNTERS = deciding
        self.LEVEL = level
        self.exh_quick_full = exh_quick_full
        self.profile = profile
        self.scale = scale
        self.classes = classes or GEN_CLASSES
        self.with_real = with_real
        self.stages = stages
        self.ASSUMPTIONS = list(GraphCheck.ASSUMPTIONS) + list(extra_assumptions)
        self.per_case = per_case
        self.caps = {"quick": cap_quick, "thorough": cap_thorough}
        self.use_byteflow = use_byteflow
        self.reloads = True

    # ------------------------------------------------------------ plan
    def plan(self, tier, seed):
        shards = []
        quick = tier == "quick"
        # exhaustive small scope
        for n in (1, 2, 3, 4):
            shards.append({"kind": "exh", "n": n, "shard": 0, "nshards": 1, "stride": 1})
        nsh = 32
        stride = 1 if (self.exh_quick_full or not quick) else 10
        for s in range(nsh):
            shards.append({"kind": "exh", "n": 5, "shard": s, "nshards": nsh,
                           "stride": stride, "offset": seed % stride})
        if not quick:
            for s in range(32):
                shards.append({"kind": "exh_sample", "n": 6, "seed": seed, "index": s,
                               "count": max(1, int(1500 * self.scale))})
            for s in range(8):
                shards.append({"kind": "exh_sample", "n": 7, "seed": seed, "index": s,
                               "count": max(1, int(800 * self.scale))})
        for cls, q, t, payload in self.classes:
            total = max(1, int((q if quick else t) * self.scale))
            per = 250 if quick else 2500
            if cls == "cons_large":
                per = 10 if quick else 100
            start = 0
            while start < total:
                c = min(per, total - start)
                shards.append({"kind": "gen", "cls": cls, "seed": seed, "start": start,
                               "count": c, "payload": payload})
                start += c
        # fault histories (M-fault): the same kind of case, each preceded in the
        # same process by runs of the very same case that are aborted by an
        # injected exception at a random library call
        if getattr(self, "fault_histories", True):
            for sh in range(4):
                shards.append({"kind": "exh", "n": 4, "shard": sh, "nshards": 4, "stride": 1,
                               "offset": 0, "faults": 1})
            for sh in range(8):
                shards.append({"kind": "exh", "n": 5, "shard": sh, "nshards": 8,
                               "stride": 60 if quick else 4,
                               "offset": seed % (60 if quick else 4), "faults": 1})
            for cls, q, t, payload in self.classes:
                total = max(1, int((q if quick else t) * self.scale * 0.08))
                per = 40 if quick else 400
                if cls == "cons_large":
                    total = max(1, total // 4)
                start = 0
                while start < total:
                    c = min(per, total - start)
                    shards.append({"kind": "gen", "cls": cls, "seed": seed, "start": 500000 + start,
                                   "count": c, "payload": payload, "faults": 2})
                    start += c
        # premature-call histories: a stage is called on the same object before
        # its turn (restructure_branch on the graph that is not closed yet, ...);
        # when that call - refused or not - leaves the graph as it was, the
        # pipeline that follows must behave as on a fresh object
        if getattr(self, "premature_histories", True) and self.stages == "JLB" \
                and "budget" not in self.profile:
            shards.append({"kind": "exh", "n": 4, "shard": 0, "nshards": 1, "stride": 2 if quick else 1,
                           "offset": seed % 2 if quick else 0, "pre": True})
            for cls, q, t, payload in self.classes:
                total = max(1, int((q if quick else t) * self.scale * 0.1))
                per = 100 if quick else 1000
                if cls in ("cons_large", "cons"):
                    continue
                start = 0
                while start < total:
                    c = min(per, total - start)
                    shards.append({"kind": "gen", "cls": cls, "seed": seed, "start": 600000 + start,
                                   "count": c, "payload": payload, "pre": True})
                    start += c
        # repeated-stage histories: after the pipeline the branch stage (or the
        # whole pipeline) is run again on the same object
        if getattr(self, "repeat_histories", False) and self.stages == "JLB" \
                and "budget" not in self.profile:
            for cls, q, t, payload in self.classes:
                if cls in ("cons_large", "cons", "names_long", "names_shuffled", "names_collide"):
                    continue
                total = max(1, int((q if quick else t) * self.scale * 0.1))
                per = 100 if quick else 1000
                start = 0
                while start < total:
                    c = min(per, total - start)
                    shards.append({"kind": "gen", "cls": cls, "seed": seed, "start": 680000 + start,
                                   "count": c, "payload": payload, "repeat": True})
                    start += c
        # fail / mend / retry histories: restructure() is refused because of a
        # stray block without predecessors (dead code), the caller removes it
        # and restructures the same object again
        if getattr(self, "premature_histories", True) and self.stages == "JLB" \
                and "budget" not in self.profile:
            for cls, q, t, payload in self.classes:
                if cls in ("cons_large", "cons", "names_long", "names_shuffled"):
                    continue
                total = max(1, int((q if quick else t) * self.scale * 0.1))
                per = 100 if quick else 1000
                start = 0
                while start < total:
                    c = min(per, total - start)
                    shards.append({"kind": "gen", "cls": cls, "seed": seed, "start": 650000 + start,
                                   "count": c, "payload": payload, "stray": True})
                    start += c
        if self.with_real:
            nsh = 16
            for s in range(nsh):
                shards.append({"kind": "realbc", "shard": s, "nshards": nsh,
                               "limit_files": 200 if quick else None})
            for s in range(nsh):
                shards.append({"kind": "realast", "shard": s, "nshards": nsh,
                               "limit_files": 120 if quick else None})
        if getattr(self, "with_gtests", False):
            shards.append({"kind": "gtests"})
        for sp in shards:
            sp["tier"] = tier
        return shards

    # ------------------------------------------------------------ cases
    def cases(self, spec):
        nf = spec.get("faults")
        for case in self._cases(spec):
            if nf:
                case["faults"] = nf
            if spec.get("repeat") and "g" in case:
                case["repeat"] = ["B", "JLB", "LB", "R"][int(core.graph_hash(case["g"])[13:15], 16) % 4]
            if spec.get("stray") and "g" in case:
                case["stray"] = "arc" if int(core.graph_hash(case["g"])[10:12], 16) % 2 else "block"
            if spec.get("pre") and "g" in case:
                case["pre"] = ["B", "L", "LB", "BL", "BB", "BLB"][
                    int(core.graph_hash(case["g"])[12:16], 16) % 6]
            yield case

    def _cases(self, spec):
        k = spec["kind"]
        if k == "exh":
            stride = spec.get("stride", 1)
            off = spec.get("offset", 0)
            for i, g in enumerate(graphs.exhaustive(spec["n"], spec["shard"], spec["nshards"])):
                if stride > 1 and i % stride != off:
                    continue
                yield {"kind": "graph", "cls": f"exh{spec['n']}", "g": g, "payload": "basic"}
        elif k == "exh_sample":
            rng = random.Random(f"exh{spec['n']}/{spec['seed']}/{spec['index']}")
            for g in graphs.exhaustive_sample(spec["n"], rng, spec["count"]):
                yield {"kind": "graph", "cls": f"exh{spec['n']}s", "g": g, "payload": "basic"}
        elif k == "gen":
            for i in range(spec["start"], spec["start"] + spec["count"]):
                g = graphs.make_case(spec["cls"], spec["seed"], i)
                if g is None:
                    continue
                yield {"kind": "graph", "cls": spec["cls"], "g": g, "payload": spec["payload"],
                       "id": [spec["cls"], spec["seed"], i]}
        elif k == "realbc":
            for path, co in corpus.stdlib_code_shard(spec["shard"], spec["nshards"],
                                                    spec.get("limit_files")):
                if not corpus.eligible(co):
                    continue
                g = corpus.reference_cfg(co)
                if graphs.closed_problems(g) is not None:
                    continue
                if self.use_byteflow:
                    # the library's own bytecode front end (real begin/end
                    # payloads, ByteFlowRenderer applicable)
                    yield {"kind": "code", "cls": "realbc", "g": g,
                           "origin": f"{path}:{co.co_qualname}:{co.co_firstlineno}"}
                    continue
                yield {"kind": "graph", "cls": "realbc", "g": g, "payload": "bytecode",
                       "origin": f"{path}:{co.co_qualname}:{co.co_firstlineno}"}
        elif k == "realast":
            for path, name, src in corpus.stdlib_source_functions(
                    spec["shard"], spec["nshards"], spec.get("limit_files")):
                yield {"kind": "src", "cls": "realast", "src": src, "origin": f"{path}:{name}"}
        elif k == "single":
            yield spec["case"]
        else:
            raise ValueError(k)

    # ------------------------------------------------------------ run
    def build(self, case, ctx):
        if case["kind"] == "graph":
            return drivers.make_scfg(case["g"], case.get("payload", "basic"),
                                     case.get("how") or drivers.how_for(case["g"]))
        if case["kind"] == "code":
            from numba_scfg.core.datastructures.byte_flow import ByteFlow

            path, qual, line = case["origin"].rsplit(":", 2)
            for co in corpus.code_objects_of_file(path):
                if co.co_qualname == qual and str(co.co_firstlineno) == line:
                    try:
                        flow = ByteFlow.from_bytecode(co)
                    except Exception as e:
                        ctx.hit("frontend_error." + type(e).__name__)
                        return None
                    ctx.data["flow"] = flow
                    return flow.scfg
            return None
        if case["kind"] == "src":
            from numba_scfg.core.datastructures.ast_transforms import AST2SCFG

            try:
                return AST2SCFG(case["src"])
            except Exception as e:
                ctx.hit("frontend_error." + type(e).__name__)
                return None
        raise ValueError(case["kind"])

    def fault_prefix(self, case, acc, tier, tries):
        """M-fault: abort `tries` runs of this very case (throw-away objects,
        oracles included, so their library calls - rendering, writing,
        iterating - are fault points too) at random library calls."""
        from ..monitors import fault

        scratch = ShardAcc(self.PROPERTY)
        c0 = {k: v for k, v in case.items() if k not in ("faults", "fault_plan")}
        fctx = core.Ctx(None)
        rng = random.Random(core.sha([c0.get("g") or c0.get("src") or c0.get("origin"), "fault"]))
        sites = fault.inject_around(fctx, rng, lambda: self.run_case(c0, scratch, tier), tries,
                                    cold_key=(self.PROPERTY, c0.get("cls")), record=case)
        # ... and one run of a SIBLING graph - the same block names, other arcs,
        # every second time with a second entry block so that the branch stage
        # refuses it on its own - so that whatever is remembered under a name
        # or a set of names is remembered about another graph
        if "g" in c0:
            sib = sibling_graph(c0["g"], rng)
            if sib is not None:
                c1 = dict(c0, g=sib, id=None)
                try:
                    self.run_case(c1, scratch, tier)
                except Exception:
                    pass
                acc.counters["M-fault.sibling_graph_runs"] += 1
        acc.counters.update(fctx.counters)
        acc.counters["cases_run_after_injected_faults"] += 1
        for s in sites:
            acc.hist("fault_site", s.split(":")[0])
        return sites

    def run_case(self, case, acc, tier="quick"):
        if case.get("faults"):
            self.fault_prefix(case, acc, tier, case["faults"])
        ctx = core.set_ctx(core.Ctx(case.get("id") or case.get("origin")))
        attach.ACTIVE.clear()
        attach.ACTIVE.update(self.oracles)
        attach.OPTS["cap"] = self.caps[tier]
        scfg = self.build(case, ctx)
        if scfg is None:
            acc.counters.update(ctx.counters)
            acc.counters["skipped_cases"] += 1
            return ctx
        if case.get("pre"):
            if not self.premature_calls(case, scfg, ctx, acc):
                return ctx
        if case.get("stray"):
            if not self.fail_mend(case, scfg, ctx, acc):
                return ctx
        if "budget" in self.profile:
            done = self.run_budgeted(case, scfg, ctx, acc)
        else:
            plan = None
            if case["kind"] == "graph" and self.reloads:
                plan = drivers.reload_plan(case["g"], case.get("payload", "basic"))
            if plan:
                # history: the graph is written out and read back between two
                # stages; the stage oracles go on against the same input graph
                done, scfg = drivers.run_stages_reload(scfg, self.stages, ctx, plan)
                acc.counters["cases_reloaded_between_stages"] += 1
            else:
                done = drivers.run_stages(scfg, self.stages, ctx)
        if case.get("repeat") and len(done) == len(self.stages):
            # the same object again: only the oracles that were found to hold on
            # the unchanged tree for a structure that is restructured twice
            saved = set(attach.ACTIVE)
            attach.ACTIVE.intersection_update(getattr(self, "repeat_oracles", set()))
            try:
                if case["repeat"] == "R":
                    try:
                        scfg.restructure()
                        acc.counters["repeat.restructure_again"] += 1
                    except Exception:
                        acc.counters["repeat.restructure_again_raised"] += 1
                else:
                    d2 = drivers.run_stages(scfg, case["repeat"], ctx)
                    acc.counters["repeat.stages_again_%d_of_%d" % (len(d2), len(case["repeat"]))] += 1
            finally:
                attach.ACTIVE.clear()
                attach.ACTIVE.update(saved)
        ctx.data["done"] = done
        if self.per_case is not None:
            self.per_case(self, case, scfg, ctx, done)
        feats = features(ctx, scfg, done)
        tr = attach.tracks(ctx).get(id(scfg))
        nt = self.nontrivial(feats, ctx, tr)
        h = None
        if nt:
            h = core.graph_hash(case["g"]) if "g" in case else core.sha(case["src"])
        acc.add_ctx(ctx, case, nontrivial_hash=h, sample=(acc.evaluations % 97 == 0))
        acc.counters["class." + case["cls"]] += 1
        if tr is not None and tr.domain_problem:
            acc.counters["out_of_domain_inputs"] += 1
        acc.hist("depth", feats["depth"])
        acc.hist("nodes", min(128, (len(case["g"]) if "g" in case else len(tr.orig) if tr else 0) // 4 * 4))
        acc.counters["graphs_with_loops"] += 1 if feats["region_loop"] else 0
        acc.counters["graphs_with_branch_regions"] += 1 if feats["region_branch"] else 0
        acc.counters["graphs_with_synth_heads"] += 1 if feats["heads"] else 0
        acc.counters["loop_regions"] += feats["region_loop"]
        acc.counters["synthetic_blocks"] += feats["synth"]
        if tr is not None:
            for stg, st in tr.stats.items():
                for lab in ("C01a", "C01b", "C06x"):
                    s = st.get(lab)
                    if s:
                        acc.counters["product_states." + lab] += s.get("states", 0)
                        acc.maximum("product_states." + lab, s.get("states", 0))
                        acc.counters["branch_evals." + lab] += s.get("branch_evals", 0)
        return ctx

    def premature_calls(self, case, scfg, ctx, acc):
        """History prefix: stages called before their turn on this object (no
        oracle watches them, what they raise is not charged).  -> True when
        they left the graph exactly as it was (the case goes on), False when
        they changed it (nothing is claimed about what follows)."""
        from ..hier import dump

        before = dump(scfg)
        saved = set(attach.ACTIVE)
        attach.ACTIVE.clear()
        core.set_ctx(core.Ctx(None))
        raised = 0
        from ..monitors import budget

        budget.install(None)
        hung = False
        try:
            for ch in case["pre"]:
                budget.start(300_000 + 2000 * len(scfg.graph))
                try:
                    getattr(scfg, {"J": "join_returns", "L": "restructure_loop",
                                   "B": "restructure_branch"}[ch])()
                except budget.BudgetExceeded:
                    hung = True  # a stage called out of turn may not come back
                    break
                except RecursionError:
                    raised += 1
                except Exception:
                    raised += 1
                finally:
                    budget.stop()
        finally:
            core.set_ctx(ctx)
            attach.ACTIVE.update(saved)
        if hung:
            acc.counters["premature.call_exceeded_budget_case_dropped"] += 1
            return False
        acc.counters["premature.calls_refused"] += raised
        if not _nesting_ok(scfg):
            # a premature call can leave a region that contains itself
            acc.counters["premature.changed_the_graph_case_dropped"] += 1
            return False
        if dump(scfg) != before:
            acc.counters["premature.changed_the_graph_case_dropped"] += 1
            return False
        acc.counters["premature.left_graph_unchanged_case_continues"] += 1
        return True

    def fail_mend(self, case, scfg, ctx, acc):
        """History prefix: a block without predecessors is added (public
        add_block), restructure() is refused by the branch stage (two heads),
        the block is removed again.  The reference model is the graph without
        the stray block; the oracles watch what follows.  -> False when the
        library did something else with the stray block (case dropped)."""
        from numba_scfg.core.datastructures.basic_block import BasicBlock

        g = case["g"]
        if case.get("stray") == "arc":
            return self.fail_mend_arc(case, scfg, ctx, acc)
        tr = attach.track_of(scfg)  # reference model: the closed CFG itself
        if tr.domain_problem is not None:
            return False
        exits = [k for k, v in g.items() if not v]
        tgt = () if int(core.graph_hash(g)[2:4], 16) % 2 or not exits else (exits[0],)
        saved = set(attach.ACTIVE)
        attach.ACTIVE.clear()
        failed_in = None
        try:
            scfg.add_block(BasicBlock(name="stray_block", _jump_targets=tgt))
            try:
                scfg.restructure()
            except RecursionError:
                failed_in = "recursion"
            except Exception as e:
                failed_in = attach.exc_key(e)["site"]
        finally:
            attach.ACTIVE.update(saved)
        stages = "".join(tr.stages)
        if failed_in is None or stages != "JL" or "stray_block" not in scfg.graph:
            acc.counters["failmend.other_outcome_case_dropped"] += 1
            return False
        scfg.remove_blocks({"stray_block"})
        tr.failed = False
        acc.counters["failmend.refused_mended_retried"] += 1
        return True

    def fail_mend_arc(self, case, scfg, ctx, acc):
        """Second fail / mend / retry history: one arc of the graph is
        "forgotten" (its target then has no predecessor: a second entry),
        restructure() is refused by the branch stage, the caller puts the block
        back with its full successor list (add_block under the same name: the
        block names and their order do not change) and restructures the same
        object again.  There is no reference model for what follows (closing
        and the loop stage already ran on the graph with the missing arc), so
        only the oracles that read the result alone decide: structure,
        hierarchy, tables and control variables, iteration, rendering,
        serialisation."""
        from numba_scfg.core.datastructures.basic_block import BasicBlock

        g = case["g"]
        preds = {}
        for k, v in g.items():
            for t in v:
                preds.setdefault(t, []).append(k)
        cands = [(k, t) for t, ps in preds.items() if len(ps) == 1 for k in ps if k != t]
        if not cands:
            acc.counters["failmend.no_arc_to_forget_case_dropped"] += 1
            return False
        k, t = cands[int(core.graph_hash(g)[6:10], 16) % len(cands)]
        full = scfg.graph[k]
        broken = tuple(x for x in full._jump_targets if x != t)
        saved = set(attach.ACTIVE)
        attach.ACTIVE.clear()
        core.set_ctx(core.Ctx(None))
        failed = False
        try:
            scfg.add_block(BasicBlock(name=k, _jump_targets=broken))
            try:
                scfg.restructure()
            except RecursionError:
                failed = True
            except Exception:
                failed = True
        finally:
            core.set_ctx(ctx)
            attach.ACTIVE.update(saved)
        cur = scfg.graph.get(k)
        if not failed or cur is None or tuple(cur._jump_targets) != broken \
                or any(x not in scfg.graph for x in full._jump_targets):
            # accepted after all, or the stages before the refusal moved or
            # rewired the block: there is nothing simple to mend
            acc.counters["failmend.other_outcome_case_dropped"] += 1
            return False
        # the arc that comes back must not close a cycle through what the loop
        # stage already wrapped (a loop entered beside its header region is
        # not an input the stages are made for): its target must not reach
        # its source at the top level
        seen = {t}
        st = [t]
        while st:
            for x in scfg.graph[st.pop()].jump_targets:
                if x in scfg.graph and x not in seen:
                    seen.add(x)
                    st.append(x)
        if k in seen:
            acc.counters["failmend.mended_arc_would_close_a_cycle_case_dropped"] += 1
            return False
        scfg.add_block(full)
        attach.tracks(ctx).pop(id(scfg), None)
        tr = attach.track_of(scfg)
        tr.domain_problem = None  # hierarchical start: self-contained oracles only (tr.flat is False)
        acc.counters["failmend.arc_forgotten_refused_mended_retried"] += 1
        return True

    def run_budgeted(self, case, scfg, ctx, acc):
        """C02 bounded progress: at most 200 n^2 + 10^5 Python calls."""
        from ..monitors import budget

        n = len(scfg.graph)
        b = 200 * n * n + 100_000
        budget.start(b)
        try:
            plan = None
            if case["kind"] == "graph" and self.reloads:
                plan = drivers.reload_plan(case["g"], case.get("payload", "basic"))
            if plan:
                # the graph is written out and read back between two stages
                done, scfg = drivers.run_stages_reload(scfg, self.stages, ctx, plan)
                acc.counters["cases_reloaded_between_stages"] += 1
            else:
                done = drivers.run_stages(scfg, self.stages, ctx)
        except budget.BudgetExceeded:
            budget.stop()
            # re-run from scratch with 10x before it is reported
            ctx2 = core.Ctx(ctx.case_id)
            core.set_ctx(ctx2)
            scfg2 = self.build(case, ctx2)
            budget.start(10 * b)
            try:
                drivers.run_stages(scfg2, self.stages, ctx2)
                core.set_ctx(ctx)
                ctx.inconc("call_budget_exceeded_once", {"n": n, "budget": b})
            except budget.BudgetExceeded:
                core.set_ctx(ctx)
                ctx.violation("C02", "call_budget_exceeded", {"n": n, "budget": 10 * b})
            finally:
                budget.stop()
            return []
        used = budget.stop()
        acc.maximum("python_calls", used)
        acc.maximum("python_calls_per_node", used // max(1, n))
        acc.hist("calls_per_node_log2", (used // max(1, n)).bit_length())
        return done

    def run_shard(self, spec):
        if spec.get("kind") == "gtests":
            return run_gtests_shard(self.PROPERTY)
        attach.install(self.profile)
        acc = ShardAcc(self.PROPERTY)
        tier = spec.get("tier", "quick")
        t0 = time.time()
        for case in self.cases(spec):
            self.run_case(case, acc, tier)
        acc.extra["wall"] = round(time.time() - t0, 2)
        return acc.result()

    def coverage_extra(self, m, tier):
        exh = {k: v for k, v in m["counters"].items() if k.startswith("class.exh")}
        return {
            "classes": {k[6:]: v for k, v in m["counters"].items() if k.startswith("class.")},
            "exhaustive_subcount": exh,
            "exhaustive_note": "classes exh1..exh4 enumerate every closed CFG on n nodes; exh5 is "
                               "complete (88680) unless this run used a 1-in-10 stride (quick tier of "
                               "the product oracles); exh6s/exh7s are uniform samples",
        }


def run_gtests_shard(prop):
    """G-tests: the repository's own tests under the monitors (pytest plugin in a
    sub-process); findings of `prop` are folded into this check."""
    import json
    import os
    import subprocess
    import tempfile

    acc = ShardAcc(prop)
    fd, out = tempfile.mkstemp(suffix=".json", dir=os.path.join(core.VERIF_DIR, "out"))
    os.close(fd)
    env = dict(os.environ)
    env["VMON_GTESTS_OUT"] = out
    env["PYTHONPATH"] = core.VERIF_DIR
    env[core.GUARD] = "1"
    try:
        subprocess.run([os.environ.get("VMON_PYTHON", "/venv/bin/python"), "-m", "pytest", "-q",
                        "-p", "vmon.pytest_plugin", "-p", "no:cacheprovider", "--timeout=600"],
                       cwd=core.REPO_DIR, env=env, capture_output=True, text=True, timeout=1500)
        with open(out) as f:
            r = json.load(f)
    except Exception as e:
        acc.inconclusive_count += 1
        acc.inconclusive.append({"case": "gtests", "why": repr(e)[:300]})
        return acc.result()
    finally:
        try:
            os.unlink(out)
        except OSError:
            pass
    acc.counters["gtests.tests_run_under_monitors"] += r.get("tests", 0)
    for k, v in r.get("monitor_hits", {}).items():
        if k.startswith(("oracle.", "M-")):
            acc.counters["gtests." + k] += v
    for t in r.get("tests_with_findings", []):
        for f in t["findings"]:
            if f["prop"] != prop:
                continue
            acc.add_finding(f["kind"], f.get("detail"), {"kind": "repo_test", "test": t["test"]},
                            stage=f.get("stage"))
    acc.evaluations += r.get("tests", 0)
    return acc.result()
