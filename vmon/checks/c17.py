"""C17 Rendering never fails and draws exactly the graph."""
from .graphbase import GraphCheck, GEN_CLASSES


def nontrivial(f, ctx, tr):
    return f["regions"] > 0 and f["synth"] > 0


CHECK = GraphCheck(
    "C17",
    oracles={"C17"},
    exh_quick_full=False,
    rule=(
        "cases: the C01 graph classes with plain, bytecode-range and AST payloads, stdlib source "
        "functions through the source front end and stdlib code objects through ByteFlow (both "
        "renderers); before and after every stage the real renderer is run and its DOT source is "
        "tokenised and compared with a walk of the graph dicts: one node per leaf in the cluster of "
        "its region, one nested cluster per region, solid edges == jump targets resolved to the "
        "innermost header, dashed edges == back edges, labels contain name / statements / "
        "offset:opname lines / variable and table rows / assignments; the graphviz call log "
        "(M-gv) cross-checks the reader. distinct = hash of the input; non-trivial = the rendered "
        "hierarchy has at least one region and one synthetic block"
    ),
    nontrivial=nontrivial,
    deciding=["oracle.C17.render", "M-gv.crosschecked"],
    profile=("stage", "table", "gv"),
    classes=[(c, max(50, q // 3), max(500, t // 5), p) for c, q, t, p in GEN_CLASSES],
    with_real=True,
    use_byteflow=True,
)
