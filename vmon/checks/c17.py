"""C17 Rendering never fails and draws exactly the graph."""
from .graphbase import GraphCheck, GEN_CLASSES


def nontrivial(f, ctx, tr):
    return f["regions"] > 0 and f["synth"] > 0


CHECK = GraphCheck(
    "C17",
    oracles={"C17"},
    exh_quick_full=False,
    rule=(
        "cases: the C01 graph classes with plain, bytecode-range and AST payloads, stdlib source "
        "functions through the source front end and stdlib code objects through ByteFlow (both "
        "renderers); before and after every stage the real renderer is run and its DOT source is "
        "tokenised and compared with a walk of the graph dicts: one node per leaf in the cluster of "
        "its region, one nested cluster per region, solid edges == jump targets resolved to the "
        "innermost header, dashed edges == back edges, labels contain name / statements / "
        "offset:opname lines / variable and table rows / assignments; the graphviz call log "
        "(M-gv) cross-checks the reader. distinct = hash of the input; non-trivial = the rendered "
        "hierarchy has at least one region and one synthetic block"
    ),
    nontrivial=nontrivial,
    deciding=["oracle.C17.render", "M-gv.crosschecked"],
    profile=("stage", "table", "gv"),
    classes=[(c, max(50, q // 3), max(500, t // 5), p) for c, q, t, p in GEN_CLASSES],
    with_real=True,
    use_byteflow=True,
)


# ---------------------------------------------------------------- pre-declared back edges
# "any graph the library can produce" includes graphs loaded with back edges
# already declared (the YAML front end allows it, the repository's tests do it)
# and restructured afterwards.
import random as _random

from .. import core as _core, attach as _attach, drivers as _drivers
from ..workloads import graphs as _graphs
from .base import ShardAcc as _ShardAcc
from . import opfaults as _opf

_plan0 = CHECK.plan
_run0 = CHECK.run_shard


def _plan(tier, seed):
    shards = _plan0(tier, seed)
    total = 600 if tier == "quick" else 20000
    per = 200 if tier == "quick" else 2000
    for start in range(0, total, per):
        shards.append({"kind": "predeclared", "seed": seed, "start": start, "count": per,
                       "tier": tier})
    shards += _opf.plan(tier, seed)
    total = 1500 if tier == "quick" else 60000
    per = 250 if tier == "quick" else 3000
    for start in range(0, total, per):
        shards.append({"kind": "wide", "seed": seed, "start": start, "count": per, "tier": tier})
    return shards


def _declare_some_backedge(scfg, rng):
    """declare the arc u->v of a DFS back edge as back edge before any stage."""
    g = scfg.graph
    color = {}
    back = []

    def dfs(u):
        color[u] = 1
        for v in g[u]._jump_targets:
            if color.get(v) == 1:
                back.append((u, v))
            elif v not in color:
                dfs(v)
        color[u] = 2

    from ..oracles.itercheck import level_head
    heads = level_head(scfg)
    if len(heads) != 1:
        return None
    import sys
    sys.setrecursionlimit(10000)
    dfs(heads[0])
    if not back:
        return None
    u, v = rng.choice(back)
    g[u] = g[u].declare_backedge(v)
    return (u, v)


def _run_predeclared(spec):
    _attach.install(CHECK.profile)
    acc = _ShardAcc("C17")
    for i in range(spec["start"], spec["start"] + spec["count"]):
        rng = _random.Random(f"c17p/{spec['seed']}/{i}")
        cls = rng.choice(["loop", "struct", "rand_small", "rand"])
        g = _graphs.make_case(cls, spec["seed"], i)
        if g is None:
            continue
        ctx = _core.set_ctx(_core.Ctx(None))
        _attach.ACTIVE.clear()
        _attach.ACTIVE.update({"C17"})
        _attach.OPTS["lenient"] = True
        try:
            scfg = _drivers.make_scfg(g, "basic")
            be = _declare_some_backedge(scfg, rng)
            if be is None:
                continue
            done = _drivers.run_stages(scfg, "JLB", ctx)
        finally:
            _attach.OPTS["lenient"] = False
        case = {"kind": "predeclared", "g": g, "backedge": list(be)}
        acc.add_ctx(ctx, case, nontrivial_hash=_core.sha([g, be]) if done else None,
                    props={"C17"}, sample=(acc.evaluations % 97 == 0))
        acc.counters["class.predeclared_backedge"] += 1
    return acc.result()


def _render_victim(scfg):
    from numba_scfg.rendering.rendering import SCFGRenderer

    return lambda: SCFGRenderer(scfg).render_scfg()


def _render_natural(scfg):
    """rendering a region's sub-graph on its own: refused (KeyError) when an
    arc leaves the rendered part"""
    from numba_scfg.rendering.rendering import SCFGRenderer
    from ..hier import levels

    return [(lambda sc=sc: SCFGRenderer(sc).render_scfg()) for reg, sc in levels(scfg)
            if reg is not None]


def _render_oracle(scfg):
    from ..oracles.dot import check_render

    return check_render(scfg)


def _run_wide(spec):
    """flat graphs as the dict / YAML front end accepts them: dense multi-way
    blocks (out-degree up to 7, up to 30 blocks, cycles, fan-in); rendered as
    they are (the stages are not made for them)"""
    from ..oracles.dot import check_render
    from ..attach import run_oracle

    _attach.install(CHECK.profile)
    acc = _ShardAcc("C17")
    for i in range(spec["start"], spec["start"] + spec["count"]):
        rng = _random.Random(f"c17w/{spec['seed']}/{i}")
        n = rng.randint(6, 30)
        names = [str(j) for j in range(n)]
        gd = {}
        for j, nm in enumerate(names):
            d = rng.choice([0, 2, 3, 4, 4, 5, 6, 7])
            gd[nm] = tuple(dict.fromkeys(rng.choice(names[1:]) for _ in range(d)))
        for j in range(1, n):
            if not any(names[j] in gd[p] for p in names[:j]):
                p = rng.choice(names[:j])
                gd[p] = gd[p] + (names[j],)
        ctx = _core.set_ctx(_core.Ctx(None))
        _attach.ACTIVE.clear()
        scfg = _drivers.make_scfg(gd, rng.choice(["basic", "bytecode"]))
        ctx.hit("oracle.C17.render")
        run_oracle(ctx, "C17.render_wide_flat", check_render, scfg, None)
        acc.add_ctx(ctx, {"kind": "wide", "seed": spec["seed"], "index": i},
                    nontrivial_hash=_core.graph_hash(gd), props={"C17"},
                    sample=(acc.evaluations % 97 == 0))
        acc.counters["class.wide_flat_digraph"] += 1
        if spec.get("kind") == "single":
            break
    return acc.result()


def _run_shard(spec):
    if spec["kind"] == "wide" or (spec["kind"] == "single" and spec["case"].get("kind") == "wide"):
        if spec["kind"] == "single":
            spec = dict(spec, seed=spec["case"]["seed"], start=spec["case"]["index"], count=1)
        return _run_wide(spec)
    if spec["kind"] == "predeclared":
        return _run_predeclared(spec)
    if spec["kind"] == "opfaults" or (spec["kind"] == "single"
                                      and spec["case"].get("kind") == "opfault"):
        return _opf.run_shard(spec, "C17", CHECK.profile, _render_victim, _render_oracle,
                              _render_natural)
    return _run0(spec)


CHECK.plan = _plan
CHECK.run_shard = _run_shard


# repeated-stage histories (the branch stage / the whole pipeline a second time
# on the same object): this property's oracle reads the result alone and holds
# there on the unchanged tree (the reference-model and hierarchy oracles do
# not: a structure that is restructured again is outside their domain)
CHECK.repeat_histories = True
CHECK.repeat_oracles = {"C17"}
