"""C16 Iteration and the region-concealing view enumerate exactly the graph."""
from .graphbase import GraphCheck


def nontrivial(f, ctx, tr):
    return f["regions"] > 0


CHECK = GraphCheck(
    "C16",
    oracles={"C16"},
    exh_quick_full=True,
    rule=(
        "cases as C02; before (flat graph) and after every stage the monitor iterates the real "
        "SCFG (list(scfg)) and the concealed view of the top graph and of every subregion and "
        "compares the yielded sequences with a walk of the graph dicts: each item once, head first, "
        "every later view item after one of its region-as-node predecessors; in addition every "
        "complete iteration of a ConcealedRegionView made *inside* the pipeline is checked by the "
        "M-iter generator wrapper. distinct = hash of the input graph; non-trivial = at least one "
        "region exists in the iterated hierarchy"
    ),
    nontrivial=nontrivial,
    deciding=["oracle.C16.iteration"],
    profile=("stage", "table", "iter"),
    use_byteflow=True,
)
