"""C16 Iteration and the region-concealing view enumerate exactly the graph."""
from .graphbase import GraphCheck


def nontrivial(f, ctx, tr):
    return f["regions"] > 0


CHECK = GraphCheck(
    "C16",
    oracles={"C16"},
    exh_quick_full=True,
    rule=(
        "cases as C02; before (flat graph) and after every stage the monitor iterates the real "
        "SCFG (list(scfg)) and the concealed view of the top graph and of every subregion and "
        "compares the yielded sequences with a walk of the graph dicts: each item once, head first, "
        "every later view item after one of its region-as-node predecessors; in addition every "
        "complete iteration of a ConcealedRegionView made *inside* the pipeline is checked by the "
        "M-iter generator wrapper. distinct = hash of the input graph; non-trivial = at least one "
        "region exists in the iterated hierarchy"
    ),
    nontrivial=nontrivial,
    deciding=["oracle.C16.iteration"],
    profile=("stage", "table", "iter"),
    use_byteflow=True,
)


# ---------------------------------------------------------------- edit histories
# Iteration must also be right on a graph that is being edited through the
# public primitives (a new entry block in front of the head, insertions after
# regions): the C14 history generator is reused with the iteration oracle run
# after every edit.
import random as _random

from .. import attach as _attach
from ..attach import run_oracle as _run_oracle
from .base import ShardAcc as _ShardAcc
from . import c14 as _c14

_plan0 = CHECK.plan
_run0 = CHECK.run_shard


def _plan(tier, seed):
    shards = _plan0(tier, seed)
    total = 3000 if tier == "quick" else 100000
    per = 250 if tier == "quick" else 2500
    for start in range(0, total, per):
        shards.append({"kind": "iter_histories", "seed": seed, "start": start, "count": per,
                       "tier": tier})
    return shards


def _post_edit(ctx, scfg):
    from ..oracles.itercheck import check_iteration

    ctx.hit("C16.iteration_after_edit")
    _run_oracle(ctx, "C16.iteration", check_iteration, scfg)


def _run_shard(spec):
    if spec["kind"] == "iter_histories" or (
            spec["kind"] == "single" and spec["case"].get("kind") == "history"):
        _attach.install(("stage", "table", "iter"))
        acc = _ShardAcc("C16")
        if spec["kind"] == "single":
            _c14.run_history(spec["case"], acc, _post_edit, True, "C16")
            return acc.result()
        for i in range(spec["start"], spec["start"] + spec["count"]):
            rng = _random.Random(f"c16h/{spec['seed']}/{i}")
            case = _c14.gen_history(rng)
            # iterate once before editing (a stale cache needs a first look)
            _c14.run_history(case, acc, _post_edit, True, "C16")
        return acc.result()
    return _run0(spec)


CHECK.plan = _plan
CHECK.run_shard = _run_shard
