"""C16 Iteration and the region-concealing view enumerate exactly the graph."""
from .graphbase import GraphCheck


def nontrivial(f, ctx, tr):
    return f["regions"] > 0


CHECK = GraphCheck(
    "C16",
    oracles={"C16"},
    exh_quick_full=True,
    rule=(
        "cases as C02; before (flat graph) and after every stage the monitor iterates the real "
        "SCFG (list(scfg)) and the concealed view of the top graph and of every subregion and "
        "compares the yielded sequences with a walk of the graph dicts: each item once, head first, "
        "every later view item after one of its region-as-node predecessors; in addition every "
        "complete iteration of a ConcealedRegionView made *inside* the pipeline is checked by the "
        "M-iter generator wrapper. distinct = hash of the input graph; non-trivial = at least one "
        "region exists in the iterated hierarchy"
    ),
    nontrivial=nontrivial,
    deciding=["oracle.C16.iteration"],
    profile=("stage", "table", "iter"),
    use_byteflow=True,
)


# ---------------------------------------------------------------- edit histories
# Iteration must also be right on a graph that is being edited through the
# public primitives (a new entry block in front of the head, insertions after
# regions): the C14 history generator is reused with the iteration oracle run
# after every edit.
import random as _random

from .. import attach as _attach
from ..attach import run_oracle as _run_oracle
from .base import ShardAcc as _ShardAcc
from . import c14 as _c14

_plan0 = CHECK.plan
_run0 = CHECK.run_shard


def _plan(tier, seed):
    shards = _plan0(tier, seed)
    total = 3000 if tier == "quick" else 100000
    per = 250 if tier == "quick" else 2500
    for start in range(0, total, per):
        shards.append({"kind": "iter_histories", "seed": seed, "start": start, "count": per,
                       "tier": tier})
    return shards


def _post_edit(ctx, scfg):
    from ..oracles.itercheck import check_iteration

    ctx.hit("C16.iteration_after_edit")
    _run_oracle(ctx, "C16.iteration", check_iteration, scfg)


def _run_shard(spec):
    if spec["kind"] == "iter_histories" or (
            spec["kind"] == "single" and spec["case"].get("kind") == "history"):
        _attach.install(("stage", "table", "iter"))
        acc = _ShardAcc("C16")
        if spec["kind"] == "single":
            _c14.run_history(spec["case"], acc, _post_edit, True, "C16")
            return acc.result()
        for i in range(spec["start"], spec["start"] + spec["count"]):
            rng = _random.Random(f"c16h/{spec['seed']}/{i}")
            case = _c14.gen_history(rng)
            # iterate once before editing (a stale cache needs a first look)
            _c14.run_history(case, acc, _post_edit, True, "C16")
        return acc.result()
    return _run0(spec)


CHECK.plan = _plan
CHECK.run_shard = _run_shard


# ---------------------------------------------------------------- flat multi-digraphs, pre-declared back edges
# "Iterating a graph" is not restricted to closed CFGs: any graph with a unique
# head from which every block is reachable can be iterated - including blocks
# with parallel arcs to the same target (('3', '3')), self loops, three
# successors, and arcs already declared back edges.  Such graphs are iterated
# flat; the stages are then tried (they may refuse a graph outside their
# domain, which is not this property's business) and the iteration oracle runs
# at every quiescent point that is reached.
import itertools as _it

from .. import core as _core, drivers as _drivers
from . import predeclared as _pre
from . import opfaults as _opf


def _iter_victim(scfg):
    from ..hier import levels

    def op():
        list(scfg)
        for reg, sc in levels(scfg):
            v = sc.concealed_region_view
            list(v)
            list(v.items())
    return op


def _iter_oracle(scfg):
    from ..oracles.itercheck import check_iteration

    return check_iteration(scfg)


_plan1 = CHECK.plan
_run1 = CHECK.run_shard


def _plan2(tier, seed):
    shards = _plan1(tier, seed)
    quick = tier == "quick"
    shards.append({"kind": "multi_exh", "n": 3, "tier": tier})
    if not quick:
        shards.append({"kind": "multi_exh", "n": 4, "tier": tier, "maxdeg": 2})
    total = 2000 if quick else 60000
    per = 250 if quick else 3000
    for start in range(0, total, per):
        shards.append({"kind": "multi_rand", "seed": seed, "start": start, "count": per,
                       "tier": tier})
    shards += _pre.plan(tier, seed)
    shards += _opf.plan(tier, seed, 300, 10000)
    return shards


def _iterable(gd, be):
    """unique head and everything reachable from it along non-back arcs"""
    fw = {k: [t for t in v if t not in (be or {}).get(k, ())] for k, v in gd.items()}
    targeted = {t for v in fw.values() for t in v}
    heads = [k for k in gd if k not in targeted]
    if len(heads) != 1:
        return False
    seen = {heads[0]}
    st = [heads[0]]
    while st:
        for t in fw[st.pop()]:
            if t not in seen:
                seen.add(t)
                st.append(t)
    return len(seen) == len(gd)


def _multi_case(gd, be, acc, payload="basic"):
    if not _iterable(gd, be):
        acc.counters["multi.skipped_not_iterable"] += 1
        return
    ctx = _core.set_ctx(_core.Ctx(None))
    _attach.ACTIVE.clear()
    _attach.ACTIVE.update({"C16"})
    _attach.OPTS["lenient"] = True
    _attach.OPTS["wellformed_only"] = True
    try:
        scfg = _drivers.make_scfg(gd, payload, "ctor", backedges=be)
        if any(len(v) >= 4 for v in gd.values()):
            # dense multi-way graphs are iterated as they are (the stages are
            # not made for them and take long to say so)
            from ..oracles.itercheck import check_iteration
            _run_oracle(ctx, "C16.iteration", check_iteration, scfg)
            ctx.hit("oracle.C16.iteration")
            done = []
        else:
            done = _drivers.run_stages(scfg, "JLB", ctx)
    finally:
        _attach.OPTS["lenient"] = False
        _attach.OPTS["wellformed_only"] = False
    acc.counters["class.flat_multi"] += 1
    acc.counters["multi.stages_completed_%d" % len(done)] += 1
    if any(len(set(v)) != len(v) for v in gd.values()):
        acc.counters["multi.with_parallel_arcs"] += 1
    if any(k in v for k, v in gd.items()):
        acc.counters["multi.with_self_loops"] += 1
    if any(len(v) >= 4 for v in gd.values()):
        acc.counters["multi.with_four_or_more_successors"] += 1
    if be:
        acc.counters["multi.with_declared_backedges"] += 1
    case = {"kind": "multidigraph", "g": gd, "payload": payload}
    if be:
        case["backedges"] = {k: list(v) for k, v in be.items()}
    acc.add_ctx(ctx, case, nontrivial_hash=_core.sha([gd, be]) if any(gd.values()) else None,
                props={"C16"}, sample=(acc.evaluations % 499 == 0))


def _run2(spec):
    k = spec["kind"]
    single = spec["case"].get("kind") if k == "single" else None
    if k == "predeclared" or single == "predeclared":
        return _pre.run_shard(spec, "C16", ("stage", "table", "iter"))
    if k == "opfaults" or single == "opfault":
        return _opf.run_shard(spec, "C16", ("stage", "table", "iter"), _iter_victim, _iter_oracle)
    if k not in ("multi_exh", "multi_rand") and single != "multidigraph":
        return _run1(spec)
    _attach.install(("stage", "table", "iter"))
    acc = _ShardAcc("C16")
    if k == "single":
        c = spec["case"]
        _multi_case({a: tuple(b) for a, b in c["g"].items()},
                    {a: tuple(b) for a, b in (c.get("backedges") or {}).items()} or None,
                    acc, c.get("payload", "basic"))
    elif k == "multi_exh":
        n = spec["n"]
        names = [str(i) for i in range(n)]
        maxdeg = spec.get("maxdeg", 3)
        opts = [()]
        for d in range(1, maxdeg + 1):
            opts += list(_it.product(names, repeat=d))  # ordered, duplicates and self loops allowed
        for combo in _it.product(opts, repeat=n):
            gd = dict(zip(names, combo))
            _multi_case(gd, None, acc)
    else:
        for i in range(spec["start"], spec["start"] + spec["count"]):
            rng = _random.Random(f"c16m/{spec['seed']}/{i}")
            wide = i % 4 == 3  # dense multi-way "state machines": up to 30 blocks, out-degree up to 7
            n = rng.randint(8, 30) if wide else rng.randint(2, 9)
            names = [str(j) for j in range(n)]
            gd = {}
            for j, nm in enumerate(names):
                # arborescence arc keeps most graphs iterable, then extra arcs
                ts = []
                d = rng.choice([0, 3, 4, 4, 5, 6, 7]) if wide else rng.choice([0, 1, 1, 2, 2, 3])
                for _ in range(d):
                    ts.append(rng.choice(names[1:]) if n > 1 else nm)
                if ts and rng.random() < 0.35:
                    ts.append(rng.choice(ts))  # parallel arc
                    rng.shuffle(ts)
                gd[nm] = tuple(ts)
            for j in range(1, n):
                if not any(names[j] in gd[p] for p in names[:j]):
                    p = rng.choice(names[:j])
                    gd[p] = gd[p] + (names[j],)
            be = None
            if rng.random() < 0.3:
                be = {}
                for nm in names:
                    pick = [t for t in dict.fromkeys(gd[nm]) if rng.random() < 0.3]
                    rng.shuffle(pick)
                    if pick:
                        be[nm] = tuple(pick)
            _multi_case(gd, be or None, acc, rng.choice(["basic", "bytecode"]))
    return acc.result()


CHECK.plan = _plan2
CHECK.run_shard = _run2


# repeated-stage histories (the branch stage / the whole pipeline a second time
# on the same object): this property's oracle reads the result alone and holds
# there on the unchanged tree (the reference-model and hierarchy oracles do
# not: a structure that is restructured again is outside their domain)
CHECK.repeat_histories = True
CHECK.repeat_oracles = {"C16"}
