"""C12 Results are deterministic across processes and hash seeds."""
import ast
import json
import os
import tempfile

from .. import core, attach, drivers, runner
from ..hier import dump
from ..workloads import graphs, programs
from .base import ShardAcc

PROPERTY = "C12"
LEVEL = "exploration"
EXHAUSTIVE = False
RULE = (
    "the same shard of cases is executed in k separate worker processes with different "
    "PYTHONHASHSEED values (quick k=4: 0, 1, 12345, random; thorough k=24 incl. 0 and random); "
    "per case each process records digests of canonical, insertion-order-keeping dumps: the "
    "hierarchy after join_returns, after restructure_loop and after restructure_branch (names, "
    "kinds, headers, exitings, ordered targets, back edges, tables, assignments; an exception is "
    "part of the dump), and for programs the front-end graph from source, the front-end graph from "
    "bytecode, their restructured forms and the regenerated source text; the parent compares the "
    "digests across processes; every other process walks its cases in reverse order, so state "
    "leaking from one case into the next also shows; every second case is run a second time in "
    "the same process and must give the same digests. Graphs are built by SCFG(graph), by add_block "
    "or by writing the graph dict (a pure function of the graph). Classes: uniform/structured/loop-hostile graphs, graphs relabelled "
    "with long random names and with names sorting against insertion order, generated programs. "
    "distinct = hash of the case; non-trivial = restructuring inserted at least one synthetic block "
    "(so set-iteration order could matter)"
)
ASSUMPTIONS = [
    "separate processes with different PYTHONHASHSEED values exercise different set/dict-of-str "
    "iteration orders (long random names maximise the churn)",
    "to_dict's own ordering is not part of the statement and is not compared",
]
DECIDING_COUNTERS = ["c12.digests_recorded"]
SHARD_TIMEOUT = {"quick": 900, "thorough": 7200}

GRAPH_CLASSES = [("names_collide", 300, 6000), ("names_namespace", 200, 4000), ("names_long", 300, 6000), ("names_shuffled", 200, 4000), ("rand", 300, 6000),
                 ("loop", 200, 4000), ("struct", 200, 4000), ("cons", 60, 1000)]
PROG_CLASSES = [("core", 100, 2000), ("expr", 60, 1000), ("loop", 60, 1000), ("deep", 40, 800),
                ("forms", 40, 800), ("chains", 40, 800), ("dead", 30, 600), ("empty", 30, 600)]


def seeds_for(tier, seed):
    if tier == "quick":
        return ["0", "1", str(12345 + seed), "random"]
    return ["0", "random"] + [str(1000 + 7919 * i + seed) for i in range(22)]


def plan(tier, seed):
    quick = tier == "quick"
    work = []
    for cls, q, t in GRAPH_CLASSES:
        total = q if quick else t
        per = 100 if quick else 500
        for start in range(0, total, per):
            work.append({"kind": "graphs", "cls": cls, "seed": seed, "start": start,
                         "count": min(per, total - start)})
    for cls, q, t in PROG_CLASSES:
        total = q if quick else t
        per = 50 if quick else 250
        for start in range(0, total, per):
            work.append({"kind": "programs", "cls": cls, "seed": seed, "start": start,
                         "count": min(per, total - start)})
    shards = []
    for gi, w in enumerate(work):
        for hi, h in enumerate(seeds_for(tier, seed)):
            sp = dict(w)
            sp.update({"group": gi, "hashseed": h, "tier": tier, "reverse": hi % 2 == 1,
                       "_env": {"PYTHONHASHSEED": h}})
            shards.append(sp)
    return shards


def _digest(x):
    return core.sha(x)


# (stages called out of turn were tried here and dropped: restructure_branch on
# a graph that still has cycles fails at a block picked in set order - which
# block the KeyError names is not a "result" the statement speaks about)
HISTORIES = ["orphan", "refused_remove", "refused_middle", "fail_mend_retry", "fail_retry",
             "queries_first", "repeat"]


def _fault_history(scfg, g, which, parts):
    """A fault at a particular point before the pipeline: an edit the library
    refuses half-way (KeyError for an unknown name) or stages called out of
    turn.  Whatever that leaves, it must be the same in every process."""
    from numba_scfg.core.datastructures.basic_block import SyntheticFill

    names = list(g)
    if which == "queries_first":
        # the public queries are asked on the object before it is restructured
        # (their answers are part of the result), then the pipeline runs
        try:
            comps = [sorted(c) for c in scfg.compute_scc()]
            ans = [["scc", sorted(comps)]]
            for comp in sorted(comps):
                try:
                    ans.append(["he", comp, [list(x) for x in scfg.find_headers_and_entries(set(comp))]])
                except AssertionError:
                    ans.append(["he", comp, "precondition"])
                ans.append(["ee", comp, [list(x) for x in scfg.find_exiting_and_exits(set(comp))]])
            ans.append(["head", scfg.find_head()])
            parts.append(("queries", _digest(ans)))
        except Exception as e:
            k = attach.exc_key(e)
            parts.append(("queries", _digest(["exception", k["type"], k["site"], k["text"]])))
        return
    if which == "repeat":
        return  # handled after the pipeline
    if which in ("fail_mend_retry", "fail_retry"):
        # restructure() is refused (a stray block without predecessors: the
        # branch stage finds two heads) after the loops were already wrapped;
        # the caller removes the block - or not - and calls restructure() again
        # on the same object (the pipeline that follows is the third attempt)
        from numba_scfg.core.datastructures.basic_block import BasicBlock

        exits = [k for k, v in g.items() if not v]
        scfg.add_block(BasicBlock(name="stray_block", _jump_targets=tuple(exits[:1])))
        for attempt in (1, 2):
            try:
                scfg.restructure()
                parts.append((f"fault:{which}:{attempt}", _digest("accepted")))
            except Exception as e:
                k = attach.exc_key(e)
                parts.append((f"fault:{which}:{attempt}",
                              _digest(["exception", k["type"], k["site"], k["text"]])))
            try:
                parts.append((f"after_attempt:{attempt}", _digest(dump(scfg))))
            except RecursionError:
                parts.append((f"after_attempt:{attempt}", _digest("cyclic hierarchy")))
            if attempt == 1 and which == "fail_mend_retry" and "stray_block" in scfg.graph:
                scfg.remove_blocks({"stray_block"})
        return
    try:
        if which == "orphan":
            # the new block is added before the predecessors are looked up
            scfg.insert_block("synth_fill_block_77", ["<no such block>", names[0]],
                              list(g[names[0]][:1]), SyntheticFill)
        elif which == "refused_middle":
            scfg.insert_block("synth_fill_block_77", [names[0], "<no such block>", names[-1]],
                              list(g[names[0]][:1]), SyntheticFill)
        elif which == "refused_remove":
            scfg.remove_blocks([names[-1], "<no such block>"])
        else:
            for nm in ("restructure_branch", "restructure_loop"):
                try:
                    getattr(scfg, nm)()
                except Exception as e:
                    k = attach.exc_key(e)
                    parts.append(("pre:" + nm, _digest(["exception", k["type"], k["site"], k["text"]])))
        parts.append(("fault:" + which, _digest("accepted")))
    except Exception as e:
        k = attach.exc_key(e)
        parts.append(("fault:" + which, _digest(["exception", k["type"], k["site"], k["text"]])))
    try:
        parts.append(("after_fault", _digest(dump(scfg))))
    except RecursionError:
        parts.append(("after_fault", _digest("cyclic hierarchy")))


def graph_parts(g, payload="basic", history=None):
    """-> (list of (part, digest), inserted_synthetic)"""
    from ..checks.graphbase import features, _nesting_ok
    from ..monitors import budget

    parts = []
    ctx = core.set_ctx(core.Ctx(None))
    attach.ACTIVE.clear()
    scfg = drivers.make_scfg(g, payload, drivers.how_for(g))
    if history:
        budget.install(None)
        budget.start(400_000 + 4000 * len(g))
    try:
        if history:
            _fault_history(scfg, g, history, parts)
        for st, name in (("J", "join_returns"), ("L", "restructure_loop"), ("B", "restructure_branch")):
            try:
                getattr(scfg, name)()
                if history and not _nesting_ok(scfg):
                    parts.append((st, _digest("cyclic hierarchy")))
                    break
                parts.append((st, _digest(dump(scfg))))
            except Exception as e:
                k = attach.exc_key(e)
                parts.append((st, _digest(["exception", k["type"], k["site"], k["text"]])))
                break
        if history == "repeat":
            # the branch stage and then the whole pipeline a second time
            for nm in ("restructure_branch", "restructure"):
                try:
                    getattr(scfg, nm)()
                    parts.append(("again:" + nm, _digest(dump(scfg)) if _nesting_ok(scfg)
                                  else _digest("cyclic hierarchy")))
                except Exception as e:
                    k = attach.exc_key(e)
                    parts.append(("again:" + nm, _digest(["exception", k["type"], k["site"], k["text"]])))
    except budget.BudgetExceeded:
        parts.append(("budget", _digest("stage does not come back after the fault history")))
    finally:
        if history:
            budget.stop()
    if history:
        return parts, True
    f = features(ctx, scfg, "JLB")
    return parts, f["synth"] > 0


def program_parts(src):
    from numba_scfg.core.datastructures.ast_transforms import AST2SCFG, SCFG2AST
    from numba_scfg.core.datastructures.byte_flow import ByteFlow

    parts = []
    synth = False
    core.set_ctx(core.Ctx(None))
    try:
        scfg = AST2SCFG(src)
        parts.append(("ast_graph", _digest(dump(scfg, with_payload=True))))
        scfg.restructure()
        parts.append(("ast_restructured", _digest(dump(scfg, with_payload=True))))
        out = ast.unparse(ast.fix_missing_locations(SCFG2AST(src, scfg)))
        parts.append(("regenerated_source", _digest(out)))
        synth = "__scfg_" in out
    except Exception as e:
        k = attach.exc_key(e)
        parts.append(("ast_pipeline", _digest(["exception", k["type"], k["site"], k["text"]])))
    try:
        ns = {}
        exec(compile(src, "<c12>", "exec"), ns)
        flow = ByteFlow.from_bytecode(ns["f"])
        parts.append(("bytecode_graph", _digest(dump(flow.scfg, with_payload=True))))
        flow.scfg.restructure()
        parts.append(("bytecode_restructured", _digest(dump(flow.scfg, with_payload=True))))
    except Exception as e:
        k = attach.exc_key(e)
        parts.append(("bytecode_pipeline", _digest(["exception", k["type"], k["site"], k["text"]])))
    return parts, synth


def _again(ctx, parts, redo):
    """The same input a second time in the SAME process: "always yields the
    identical result" also rules out state carried from one run to the next."""
    ctx.hit("c12.second_run_in_same_process")
    second = redo()
    if second != parts:
        part = next((a[0] for a, b in zip(parts, second) if a != b), "length")
        ctx.violation("C12", "result_differs_between_two_runs_in_one_process:" + part,
                      {"part": part})


def run_shard(spec):
    acc = ShardAcc(PROPERTY)
    digests = {}
    k = spec["kind"]
    acc.counters["hashseed." + str(spec.get("hashseed"))] += 1
    # every other process walks its cases in reverse order: state that leaks
    # from one case into the next (module-level counters, caches) then shows up
    # as a difference between processes
    rng_idx = list(range(spec.get("start", 0), spec.get("start", 0) + spec.get("count", 0)))
    if spec.get("reverse"):
        rng_idx.reverse()
    if k == "graphs":
        for i in rng_idx:
            g = graphs.make_case(spec["cls"], spec["seed"], i)
            if g is None:
                continue
            hist = HISTORIES[(i // 3) % len(HISTORIES)] if i % 3 == 1 else None
            parts, nt = graph_parts(g, history=hist)
            key = f"{spec['cls']}/{spec['seed']}/{i}"
            digests[key] = parts
            ctx = core.Ctx(key)
            if hist:
                ctx.hit("c12.fault_histories")
                ctx.hit("c12.fault_histories." + hist)
            if i % 2 == 0:
                _again(ctx, parts, lambda: graph_parts(g, history=hist)[0])
            ctx.hit("c12.digests_recorded", len(parts))
            acc.add_ctx(ctx, {"kind": "graph", "cls": spec["cls"], "g": g, "id": key, "history": hist},
                        nontrivial_hash=core.graph_hash(g) if nt else None,
                        sample=(acc.evaluations % 97 == 0))
    elif k == "programs":
        for i in rng_idx:
            src = programs.make_program(spec["cls"], spec["seed"], i)
            parts, nt = program_parts(src)
            key = f"prog:{spec['cls']}/{spec['seed']}/{i}"
            digests[key] = parts
            ctx = core.Ctx(key)
            if i % 2 == 0:
                _again(ctx, parts, lambda: program_parts(src)[0])
            ctx.hit("c12.digests_recorded", len(parts))
            acc.add_ctx(ctx, {"kind": "program", "cls": spec["cls"], "src": src, "id": key},
                        nontrivial_hash=core.sha(src) if nt else None,
                        sample=(acc.evaluations % 97 == 0))
    elif k == "single":
        c = spec["case"]
        if c["kind"] == "graph":
            parts, _ = graph_parts({a: tuple(b) for a, b in c["g"].items()},
                                   history=c.get("history"))
        else:
            parts, _ = program_parts(c["src"])
        digests[c.get("id", "case")] = parts
        acc.evaluations += 1
    acc.extra["digests"] = digests
    return acc.result()


def compare_groups(results):
    """-> list of findings (key, detail, case id)"""
    groups = {}
    for r in results:
        if "_failed" in r:
            continue
        sp = r["_spec"]
        groups.setdefault(sp.get("group"), []).append((sp.get("hashseed"), r["extra"]["digests"], sp))
    out = []
    compared = 0
    for gi, runs in groups.items():
        base_seed, base, sp0 = runs[0]
        for seed, dg, sp in runs[1:]:
            for key, parts in base.items():
                compared += 1
                other = dg.get(key)
                if other is None:
                    out.append(("case_missing_in_one_process", {"case": key, "seeds": [base_seed, seed]}, key, sp0))
                    continue
                if parts != other:
                    part = next((a[0] for a, b in zip(parts, other) if a != b), "length")
                    out.append((f"result_differs_between_hash_seeds:{part}",
                                {"case": key, "seeds": [base_seed, seed], "part": part}, key, sp0))
    return out, compared


def post(m, results, tier, seed):
    diffs, compared = compare_groups(results)
    m["counters"]["c12.cross_process_comparisons"] += compared
    seen = set()
    for kind, detail, key, sp in diffs:
        m["finding_counts"][kind] += 1 if (kind, key) not in seen else 0
        seen.add((kind, key))
        if sum(1 for f in m["findings"] if f.get("key") == kind) < 3:
            case = None
            if key.startswith("prog:"):
                cls, sd, i = key[5:].split("/")
                case = {"kind": "program", "cls": cls, "src": programs.make_program(cls, int(sd), int(i)), "id": key}
            else:
                cls, sd, i = key.split("/")
                i = int(i)
                case = {"kind": "graph", "cls": cls, "g": graphs.make_case(cls, int(sd), i), "id": key,
                        "history": HISTORIES[(i // 3) % len(HISTORIES)] if i % 3 == 1 else None}
            m["findings"].append({"prop": "C12", "kind": kind, "key": kind, "detail": detail,
                                  "case": case, "stage": None, "mech": None})


def replay_case(rec):
    """Re-run the recorded case under the two recorded hash seeds."""
    case = rec["case"]
    seeds = (rec.get("finding", {}).get("detail") or {}).get("seeds") or ["0", "1"]
    seeds = [s if s != "random" else "424242" for s in seeds]
    res = []
    os.makedirs(os.path.join(core.VERIF_DIR, "out"), exist_ok=True)
    with tempfile.TemporaryDirectory(dir=os.path.join(core.VERIF_DIR, "out")) as td:
        for i, h in enumerate(seeds):
            r = runner.run_worker("C12", {"kind": "single", "case": case, "tier": "quick",
                                          "group": 0, "hashseed": h}, td, i, 600,
                                  {"PYTHONHASHSEED": h})
            res.append(r)
    diffs, _ = compare_groups(res)
    if diffs:
        print(f"VIOLATION property=C12 replay=<this> keys={sorted({d[0] for d in diffs})}")
        return 1
    print("C12: replayed case gives identical digests under seeds", seeds)
    return 0


def coverage_extra(m, tier):
    return {"hash_seeds": sorted(k.split(".", 1)[1] for k in m["counters"] if k.startswith("hashseed.")),
            "cross_process_comparisons": m["counters"].get("c12.cross_process_comparisons", 0)}
