"""C10 Code generation emits every block exactly once, validly and hygienically."""
import ast

from .. import core, attach, drivers
from ..attach import exc_key
from ..core import Viol
from ..oracles import census
from ..workloads import graphs, programs
from .base import ShardAcc
from . import progbase

PROPERTY = "C10"
LEVEL = "exploration"
EXHAUSTIVE = False
RULE = (
    "cases: (a) generated programs of the C07 classes and stdlib source functions through "
    "AST2SCFG -> restructure -> SCFG2AST; (b) independently, generated closed CFGs (structured+"
    "gotos, uniform random, loop-hostile: shapes no source produces) whose blocks carry small AST "
    "payloads, restructured and handed to SCFG2AST. Before code generation every statement / "
    "return value / branch test node of every AST block is stamped; the census of the returned "
    "FunctionDef requires each stamp exactly once, each test as the condition of exactly one If, "
    "the multiset of control-variable assignments equal to that of the synthetic assignment "
    "blocks, one while per loop region, codegen() entered exactly once per block (M-s2a), the "
    "output to unparse and compile, and every newly bound name to lie in __scfg_*__; the same "
    "graph is emitted a second time by a fresh transformer and a third time by ONE transformer "
    "instance that is reused for all graphs of a worker (same census, same text). distinct = "
    "hash of source / graph; non-trivial = the restructured graph has at least one region and at "
    "least 3 stamped nodes"
)
ASSUMPTIONS = [
    "static census of the output tree (no execution): covers code on paths no input exercises",
    "names the output merely reads beyond the original's (the builtins iter/next of the "
    "for-lowering) are recorded, not charged here (C07 decides shadowing dynamically)",
]
DECIDING_COUNTERS = ["oracle.C10.census", "M-s2a.codegen"]
SHARD_TIMEOUT = {"quick": 900, "thorough": 7200}

GRAPH_CLASSES = [("struct", 600, 30000), ("rand_small", 300, 15000), ("loop", 300, 15000),
                 ("rand", 300, 15000)]


def plan(tier, seed):
    shards = progbase.plan_programs(tier, seed)
    quick = tier == "quick"
    for cls, q, t in GRAPH_CLASSES:
        total = q if quick else t
        per = 100 if quick else 1500
        for start in range(0, total, per):
            shards.append({"kind": "astgraphs", "cls": cls, "seed": seed, "start": start,
                           "count": min(per, total - start), "tier": tier})
    return shards


_SHARED = None


def census_case(ctx, acc, case, original_fn, scfg, src_for_s2a):
    from numba_scfg.core.datastructures.ast_transforms import SCFG2AST
    from ..checks.graphbase import features

    stamped = census.stamp_blocks(scfg)
    ctx.data.pop("s2a_calls", None)
    try:
        fdef = SCFG2AST(src_for_s2a, scfg)
    except NotImplementedError:
        acc.counters["refused_by_codegen"] += 1
        return None
    except Exception as e:
        k = exc_key(e)
        ctx.violation("C10", f"codegen_raised:{k['type']}@{k['site']}", k)
        return None
    ctx.hit("oracle.C10.census")
    try:
        st, out_src = census.check_census(original_fn, scfg, fdef, stamped,
                                          ctx.data.get("s2a_calls"))
        acc.counters["stamps_checked"] += st["stmts"] + st["tests"]
        acc.counters["synthetic_assignments_checked"] += st["synth_assign"]
        acc.counters["loop_regions_checked"] += st["loops"]
        for n in st["extra_reads"]:
            acc.hist("names_read_beyond_original", n)
    except Viol as v:
        ctx.viol(v)
    # history: code generation must not consume or alter the graph - a second
    # call on the same graph passes the same census and gives the same text
    from ..hier import dump
    before = dump(scfg, with_payload=True)
    ctx.data.pop("s2a_calls", None)
    first_text = None
    try:
        fdef2 = SCFG2AST(src_for_s2a, scfg)
        st2, out2 = census.check_census(original_fn, scfg, fdef2, stamped,
                                        ctx.data.get("s2a_calls"))
        acc.counters["second_codegen_passes"] += 1
        try:
            first_text = ast.unparse(ast.fix_missing_locations(fdef))
        except Exception:
            first_text = None
        if first_text is not None and out2 != first_text:
            ctx.violation("C10", "second_codegen_of_same_graph_differs",
                          {"first": first_text[:600], "second": out2[:600]})
    except Viol as v:
        ctx.violation("C10", "second_codegen:" + v.kind, v.detail)
    except NotImplementedError:
        ctx.violation("C10", "second_codegen_refused", None)
    except Exception as e:
        k = exc_key(e)
        ctx.violation("C10", f"second_codegen_raised:{k['type']}@{k['site']}", k)
    # history on the transformer object: ONE SCFG2ASTTransformer instance is
    # reused for every graph of this shard (the public class allows it); what it
    # emits for this graph must not depend on the graphs it emitted before
    global _SHARED
    try:
        from numba_scfg.core.datastructures.ast_transforms import (
            SCFG2ASTTransformer, unparse_code)
        if _SHARED is None:
            _SHARED = SCFG2ASTTransformer()
        ctx.data.pop("s2a_calls", None)
        fdef3 = _SHARED.transform(original=unparse_code(src_for_s2a)[0], scfg=scfg)
        st3, out3 = census.check_census(original_fn, scfg, fdef3, stamped,
                                        ctx.data.get("s2a_calls"))
        acc.counters["shared_transformer_passes"] += 1
        if first_text is not None and out3 != first_text:
            ctx.violation("C10", "reused_transformer_emits_other_text",
                          {"first": first_text[:600], "reused": out3[:600]})
    except Viol as v:
        ctx.violation("C10", "reused_transformer:" + v.kind, v.detail)
    except NotImplementedError:
        ctx.violation("C10", "reused_transformer_refused", None)
    except Exception as e:
        k = exc_key(e)
        ctx.violation("C10", f"reused_transformer_raised:{k['type']}@{k['site']}", k)
    f = features(ctx, scfg, "JLB")
    return f["regions"] > 0 and (len(stamped[0]) + len(stamped[1])) >= 3


def run_program(case, acc):
    from numba_scfg.core.datastructures.ast_transforms import AST2SCFG

    ctx = core.set_ctx(core.Ctx(case.get("id") or case.get("origin")))
    attach.ACTIVE.clear()
    src = case["src"]
    acc.counters["class." + case["cls"]] += 1
    try:
        scfg = AST2SCFG(src)
        scfg.restructure()
    except NotImplementedError:
        acc.counters["refused"] += 1
        acc.add_ctx(ctx, case)
        return
    except Exception as e:
        acc.counters["pipeline_error_before_codegen"] += 1  # C07's business
        acc.add_ctx(ctx, case)
        return
    nt = census_case(ctx, acc, case, ast.parse(src).body[0], scfg, src)
    acc.add_ctx(ctx, case, nontrivial_hash=core.sha(src) if nt else None,
                sample=(acc.evaluations % 211 == 0))


def run_graph(case, acc):
    ctx = core.set_ctx(core.Ctx(case.get("id")))
    attach.ACTIVE.clear()
    g = {k: tuple(v) for k, v in case["g"].items()}
    acc.counters["class.graph_" + case["cls"]] += 1
    scfg = drivers.make_scfg(g, "ast", drivers.how_for(g))
    done = drivers.run_stages(scfg, "JLB", ctx)
    if len(done) != 3:
        acc.counters["pipeline_error_before_codegen"] += 1
        acc.add_ctx(ctx, case)
        return
    names = sorted({f"v{i}" for i in range(len(g))})
    body = "\n".join(f"    {n} = 0" for n in names)
    original = f"def f(" + ", ".join(sorted({f'c{i}' for i in range(len(g))} | {f'r{i}' for i in range(len(g))})) + f"):\n{body}\n"
    nt = census_case(ctx, acc, case, ast.parse(original).body[0], scfg, original)
    acc.add_ctx(ctx, case, nontrivial_hash=core.graph_hash(g) if nt else None,
                sample=(acc.evaluations % 211 == 0))


def run_shard(spec):
    attach.install(("stage", "table", "a2s"))
    acc = ShardAcc(PROPERTY)
    k = spec["kind"]
    if k == "astgraphs":
        for i in range(spec["start"], spec["start"] + spec["count"]):
            g = graphs.make_case(spec["cls"], spec["seed"], i)
            if g is not None:
                run_graph({"kind": "astgraph", "cls": spec["cls"], "g": g,
                           "id": [spec["cls"], spec["seed"], i]}, acc)
    elif k == "single" and spec["case"].get("kind") == "astgraph":
        run_graph(spec["case"], acc)
    else:
        for case in progbase.iter_cases(spec):
            progbase.run_with_faults(PROPERTY, run_program, case, acc)
    return acc.result()
