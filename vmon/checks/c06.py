"""C06 Control variables assigned before use and in range (DESIGN section 10, C06)."""
from .graphbase import GraphCheck


def nontrivial(f, ctx, tr):
    if tr is None:
        return False
    for st in tr.stats.values():
        x = st.get("C06x")
        if x and x.get("branch_reached", 0) > 0:
            return True
    return False


CHECK = GraphCheck(
    "C06",
    oracles={"C06"},
    rule=(
        "cases as C01; after every stage (1) table/successor agreement of every branching block, "
        "and after every replace_jump_targets call (M-table contract); (2) exact exploration of "
        "(original leaf, live valuation, stale latches) to a fixed point flagging unset, stale-at-"
        "latch and out-of-range uses; (3) must-assigned data-flow analysis as a verdict after the "
        "loop stage only. distinct = hash of the input graph; non-trivial = the exploration reached "
        "at least one synthetic branching block"
    ),
    nontrivial=nontrivial,
    deciding=["oracle.C06.exact", "oracle.C06.tables"],
)

CHECK.with_gtests = True
