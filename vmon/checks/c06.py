"""C06 Control variables assigned before use and in range (DESIGN section 10, C06)."""
from .graphbase import GraphCheck


def nontrivial(f, ctx, tr):
    if tr is None:
        return False
    for st in tr.stats.values():
        x = st.get("C06x")
        if x and x.get("branch_reached", 0) > 0:
            return True
    return False


CHECK = GraphCheck(
    "C06",
    oracles={"C06"},
    rule=(
        "cases as C01; after every stage (1) table/successor agreement of every branching block, "
        "and after every replace_jump_targets call (M-table contract); (2) exact exploration of "
        "(original leaf, live valuation, stale latches) to a fixed point flagging unset, stale-at-"
        "latch and out-of-range uses; (3) must-assigned data-flow analysis as a verdict after the "
        "loop stage only. Histories: (a) aliasing - a partly restructured graph is written to a "
        "dict, read back twice, one copy restructured further, tables of the original and of the "
        "untouched copy re-checked; (b) edits - random sequences of the public edit primitives "
        "(insert_block of four types, insert_block_and_control_blocks, join_tails_and_exits, with "
        "branching synthetic blocks and regions as predecessors and several successors rerouted at "
        "once) on graphs after JL/JLB, with the M-table contract on every table rewrite, table/"
        "successor agreement after every edit and the exact exploration after every edit of a "
        "path-preserving history. distinct = hash of the input graph (+ history); non-trivial = the "
        "exploration reached at least one synthetic branching block / an edit rerouted an arc"
    ),
    nontrivial=nontrivial,
    deciding=["oracle.C06.exact", "oracle.C06.tables"],
)

CHECK.with_gtests = True


# ---------------------------------------------------------------- aliasing histories
# Tables must stay right on *every* graph, also on one that merely shares a
# description with a graph that is transformed further: write a graph, read it
# back twice, restructure only one copy, then look at the original and at the
# untouched copy.
import random as _random

from .. import core as _core, attach as _attach, drivers as _drivers
from ..attach import run_oracle as _run_oracle
from ..workloads import graphs as _graphs
from .base import ShardAcc as _ShardAcc

_plan0 = CHECK.plan
_run0 = CHECK.run_shard


def _plan(tier, seed):
    shards = _plan0(tier, seed)
    total = 1500 if tier == "quick" else 60000
    per = 250 if tier == "quick" else 3000
    for start in range(0, total, per):
        shards.append({"kind": "alias", "seed": seed, "start": start, "count": per, "tier": tier})
    total = 3000 if tier == "quick" else 120000
    for start in range(0, total, per):
        shards.append({"kind": "edit_histories", "seed": seed, "start": start, "count": per,
                       "tier": tier})
    return shards


# ---------------------------------------------------------------- edit histories
# "... at every stage and after every renaming": the pipeline itself only ever
# renames one successor for one; the public edit primitives can put one new
# block behind several successors of a branching block at once (or behind two
# of three).  The C14 history generator is reused; the M-table contract runs on
# every table rewrite the edits cause, the table/successor agreement after
# every edit, and the exact exploration after every edit of a path-preserving
# history.  ("C06T" activates the M-table contract only: the stage oracles are
# reference-model oracles and say nothing after an edit that is not
# path-preserving; an insertion with S empty - which *appends* a successor - is
# only made behind exits, as join_returns does.)
def _post_edit(ctx, scfg):
    from ..oracles import ctrlvars

    ctx.hit("C06.tables_after_edit")
    _run_oracle(ctx, "C06.tables", ctrlvars.check_tables, scfg)
    if ctx.data.get("history_mode") == "pp":
        r = _run_oracle(ctx, "C06.exact", ctrlvars.exact, scfg, 300_000)
        if r is not None:
            for p in r[0][:3]:
                ctx.violation("C06", p[0] + "_after_edit", p[1:])


def _alias_case(case, acc):
    from numba_scfg.core.datastructures.scfg import SCFG
    from ..oracles import ctrlvars
    from ..hier import dump

    ctx = _core.set_ctx(_core.Ctx(None))
    _attach.ACTIVE.clear()
    g = {k: tuple(v) for k, v in case["g"].items()}
    scfg = _drivers.make_scfg(g, "bytecode")
    done = _drivers.run_stages(scfg, case["prefix"], ctx)
    nt = None
    if len(done) == len(case["prefix"]):
        try:
            d = scfg.to_dict()
            c1, _ = SCFG.from_dict(d)
            c2, _ = SCFG.from_dict(d)
        except Exception:
            acc.counters["alias.io_failed"] += 1
            acc.add_ctx(ctx, case)
            return
        before = (dump(scfg), dump(c2))
        rest = "JLB"[len(case["prefix"]):]
        _drivers.run_stages(c1, rest, ctx)
        ctx.hit("C06.alias_histories")
        for label, gr, b in (("original", scfg, before[0]), ("untouched_copy", c2, before[1])):
            _run_oracle(ctx, "C06.tables", ctrlvars.check_tables, gr)
            if dump(gr) != b:
                ctx.violation("C06", "graph_changed_by_restructuring_a_copy_read_from_its_dict",
                              {"which": label})
        nt = _core.sha([g, case["prefix"]])
    acc.add_ctx(ctx, case, nontrivial_hash=nt, sample=(acc.evaluations % 499 == 0))


def _run_shard(spec):
    if spec["kind"] == "edit_histories" or (spec["kind"] == "single"
                                            and spec["case"].get("kind") == "history"):
        from . import c14 as _c14

        _attach.install(("stage", "table", "edit"))
        acc = _ShardAcc("C06")
        if spec["kind"] == "single":
            _c14.run_history(spec["case"], acc, _post_edit, False, "C06", active=("C06T",),
                             append_only_to_exits=True)
            return acc.result()
        for i in range(spec["start"], spec["start"] + spec["count"]):
            rng = _random.Random(f"c06h/{spec['seed']}/{i}")
            case = _c14.gen_history(rng)
            if case["prefix"] in ("", "J"):
                case["prefix"] = rng.choice(["JL", "JLB"])  # tables exist only after L
            _c14.run_history(case, acc, _post_edit, False, "C06", active=("C06T",),
                                 append_only_to_exits=True)
        return acc.result()
    if spec["kind"] == "alias" or (spec["kind"] == "single"
                                   and spec["case"].get("kind") == "alias"):
        _attach.install(CHECK.profile)
        acc = _ShardAcc("C06")
        if spec["kind"] == "single":
            _alias_case(spec["case"], acc)
            return acc.result()
        for i in range(spec["start"], spec["start"] + spec["count"]):
            rng = _random.Random(f"c06a/{spec['seed']}/{i}")
            cls = rng.choice(["rand", "rand_small", "loop", "struct"])
            g = _graphs.make_case(cls, spec["seed"], i)
            if g is None:
                continue
            _alias_case({"kind": "alias", "g": g, "prefix": rng.choice(["J", "JL", "JL"])}, acc)
        return acc.result()
    return _run0(spec)


CHECK.plan = _plan
CHECK.run_shard = _run_shard


# repeated-stage histories (the branch stage / the whole pipeline a second time
# on the same object): this property's oracle reads the result alone and holds
# there on the unchanged tree (the reference-model and hierarchy oracles do
# not: a structure that is restructured again is outside their domain)
CHECK.repeat_histories = True
CHECK.repeat_oracles = {"C06"}
