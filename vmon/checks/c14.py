"""C14 Graph edit primitives reroute exactly the requested arcs (DESIGN 10/C14).

Workloads: (1) random edit histories applied directly to graphs at every stage
prefix (region / branching-synthetic / back-edge-carrying predecessors, several
successors in S, S empty); (2) every edit call the restructuring pipeline makes
on the graph classes of C01.  The M-edit contracts (icontract snapshot/ensure)
decide; after every edit of a path-preserving history walker (a) of C01 checks
that the set of paths between original blocks is unchanged.
"""
import random

from .. import core, attach, drivers
from ..attach import run_oracle
from ..core import Viol
from ..workloads import graphs
from .base import ShardAcc
from .graphbase import GraphCheck, GEN_CLASSES

PROPERTY = "C14"
LEVEL = "exploration"
EXHAUSTIVE = False
RULE = (
    "histories: a generated closed CFG is taken through a random stage prefix ('', J, JL, JLB) "
    "and then 1-6 random edits (insert_block of four synthetic types, insert_block_and_control_"
    "blocks, join_returns, join_tails_and_exits with |T|,|E| in 1..3) with P,S drawn from the "
    "top-level names (regions, branching synthetic blocks and back-edge carriers included); every "
    "call runs under the M-edit contract; in path-preserving histories (control insertions, "
    "single-successor insertions, closing) the product walker re-validates all paths after every "
    "edit. in-pipeline: the same contracts on every edit call made while restructuring the C01 "
    "graph classes. distinct = hash of (graph, prefix, edit sequence); non-trivial = at least one "
    "edit rerouted at least one arc and its contract was evaluated"
)
ASSUMPTIONS = [
    "whether repeated occurrences of the new block in a predecessor are collapsed or kept is left "
    "open (the statement allows both)",
    "edits whose arguments violate the documented preconditions (unknown predecessor, existing "
    "new name) are not charged",
]
DECIDING_COUNTERS = ["M-edit.insert_block.ok", "M-edit.insert_control.ok",
                     "M-edit.join_returns.joined", "M-edit.join_tails_and_exits.ok"]
SHARD_TIMEOUT = {"quick": 900, "thorough": 7200}

_pipeline = GraphCheck(
    "C14", oracles=set(), rule="", nontrivial=lambda f, c, t: f["synth"] > 0,
    deciding=[], profile=("stage", "table", "edit"), with_real=True,
    classes=[(c, max(50, q // 4), max(500, t // 10), p) for c, q, t, p in GEN_CLASSES],
)


def plan(tier, seed):
    quick = tier == "quick"
    shards = []
    total = 6000 if quick else 300000
    per = 250 if quick else 3000
    for start in range(0, total, per):
        shards.append({"kind": "histories", "seed": seed, "start": start, "count": per})
    for sp in _pipeline.plan(tier, seed):
        if sp["kind"] == "exh" and sp["n"] == 5 and quick:
            sp["stride"] = 40
            sp["offset"] = seed % 40
        shards.append(sp)
    shards.append({"kind": "gtests"})
    for sp in shards:
        sp["tier"] = tier
    return shards


def _types():
    from numba_scfg.core.datastructures.basic_block import (
        SyntheticFill, SyntheticTail, SyntheticExit, SyntheticReturn)
    return [(SyntheticFill, "synth_fill"), (SyntheticTail, "synth_tail"),
            (SyntheticExit, "synth_exit"), (SyntheticReturn, "synth_return")]


def gen_history(rng):
    cls = rng.choice(["rand_small", "rand_small", "struct", "loop", "rand"])
    g = None
    while g is None:
        g = graphs.gen_case(cls, rng)
    graphs.assert_closed(g)
    prefix = rng.choice(["", "J", "JL", "JLB", "JLB"])
    mode = rng.choice(["pp", "any"])
    nops = rng.randint(1, 6)
    return {"kind": "history", "g": g, "prefix": prefix, "mode": mode, "nops": nops,
            "opseed": rng.getrandbits(32), "refusals": rng.random() < 0.35}


def _open_after_refusal(scfg):
    """What the library's own, non-atomic refusal may legitimately leave at the
    top level: a target naming no block (control insertion: the head is only
    added at the end) or a second block without predecessors (the new block is
    added before the predecessors are looked up)."""
    g = scfg.graph
    names = set(g)
    targeted = set()
    for b in g.values():
        for t in tuple(b._jump_targets) + tuple(b.backedges):
            if t not in names:
                return "dangling_target"
            targeted.add(t)
    if len([k for k in g if k not in targeted]) > 1:
        return "several_heads"
    return None


def refused_edit(scfg, rng, ctx, P, U, prop, ops_done, mode="any"):
    """A natural fault: the same edit call with a predecessor name that is not
    in the graph (first, in the middle or last in the list).  The library
    refuses it (KeyError) after it may have rerouted the predecessors listed
    before it.  -> 'continue' | 'stop'"""
    from ..oracles.hierarchy import check_hierarchy

    ty, kind = rng.choice(_types())
    variant = rng.choice(["insert", "insert", "control"])
    if not U:
        return "continue"
    S = rng.sample(U, rng.randint(1, min(len(U), 2)))
    if mode == "pp":
        S = S[:1]  # what is rerouted before the refusal keeps all paths
    Pb = list(P)
    pos = rng.choice([0, len(Pb), len(Pb), rng.randint(0, len(Pb))])
    Pb.insert(pos, "no_such_block")
    before = None
    try:
        if variant == "insert":
            new = scfg.name_gen.new_block_name(kind)
            scfg.insert_block(new, Pb, list(S), ty)
        else:
            new = scfg.name_gen.new_block_name("synth_head")
            scfg.insert_block_and_control_blocks(new, Pb, list(S))
        ctx.hit("history.bad_predecessor_accepted")
        ops_done.append(["refused_" + variant, new, Pb, S, "accepted"])
    except Exception as e:
        ctx.hit("history.refused_edits")
        ctx.hit("history.refused_edits.pos_" + ("first" if pos == 0 else "last" if pos == len(P) else "middle"))
        ops_done.append(["refused_" + variant, new, Pb, S, type(e).__name__])
    why = _open_after_refusal(scfg)
    if why is not None:
        # the unchanged library leaves such graphs itself: nothing is claimed
        # about them and the history ends here
        ctx.hit("history.ended_after_refusal." + why)
        return "stop"
    # the graph is closed under names and has one head: whatever was rerouted
    # before the refusal must have been rerouted at every level
    try:
        check_hierarchy(scfg)
        ctx.hit("history.hierarchy_checked_after_refusal")
    except Viol as v:
        ctx.violation(prop, "hierarchy_inconsistent_after_refused_edit:" + v.kind, v.detail)
        return "stop"
    return "continue"


def run_history(case, acc, post_edit=None, entry_ops=False, prop="C14", active=(),
                append_only_to_exits=False):
    from numba_scfg.core.datastructures.basic_block import RegionBlock, SyntheticBranch
    from ..oracles.paths import name_walk

    ctx = core.set_ctx(core.Ctx(None))
    attach.ACTIVE.clear()
    attach.ACTIVE.update(active)
    ctx.data["history_mode"] = case["mode"]
    g = {k: tuple(v) for k, v in case["g"].items()}
    scfg = drivers.make_scfg(g, "basic", drivers.how_for(g))
    tr = attach.track_of(scfg)
    done = drivers.run_stages(scfg, case["prefix"], ctx)
    if len(done) != len(case["prefix"]):
        ctx.hit("history.prefix_failed")
        acc.add_ctx(ctx, case)
        return
    rng = random.Random(case["opseed"])
    mode = case["mode"]
    ops_done = []
    rerouted = 0
    for step in range(case["nops"]):
        K = list(scfg.graph)
        special = [k for k in K if isinstance(scfg.graph[k], (RegionBlock, SyntheticBranch))
                   or scfg.graph[k].backedges]
        kP = rng.randint(1, min(3, len(K)))
        P = rng.sample(K, kP)
        if special and rng.random() < 0.6:
            sp = rng.choice(special)
            if sp not in P:
                P[0] = sp
        U = []
        for p in P:
            for t in scfg.graph[p].jump_targets:
                if t in scfg.graph and t not in U:
                    U.append(t)
        op = rng.choice(["insert", "insert", "control", "control", "join_returns", "jte"]
                        + (["entry", "entry"] if entry_ops else []))
        if case.get("refusals") and rng.random() < 0.35:
            if refused_edit(scfg, rng, ctx, P, U, prop, ops_done, mode) == "stop":
                break
            if post_edit is not None:
                post_edit(ctx, scfg)
            continue
        try:
            if op == "entry":
                # a new entry block in front of the current head (public API)
                from numba_scfg.core.datastructures.basic_block import BasicBlock, SyntheticFill
                from ..oracles.itercheck import level_head

                heads = level_head(scfg)
                if len(heads) != 1:
                    continue
                new = scfg.name_gen.new_block_name("synth_fill")
                if rng.random() < 0.5:
                    scfg.insert_block(new, [], [heads[0]], SyntheticFill)
                    ops_done.append(["insert_block", new, [], [heads[0]], "SyntheticFill"])
                else:
                    scfg.add_block(BasicBlock(name=new, _jump_targets=(heads[0],)))
                    ops_done.append(["add_block", new, [heads[0]]])
            elif op == "insert":
                ty, kind = rng.choice(_types())
                exits_only = all(not scfg.graph[p]._jump_targets for p in P)
                if U and rng.random() < 0.85:
                    S = rng.sample(U, rng.randint(1, min(len(U), 3)))
                    if mode == "pp":
                        S = S[:1]
                    if mode == "any" and rng.random() < 0.2:
                        extra = rng.choice(K)
                        if extra not in S:
                            S.append(extra)
                elif exits_only or (mode == "any" and not append_only_to_exits):
                    S = []
                else:
                    continue
                new = scfg.name_gen.new_block_name(kind)
                scfg.insert_block(new, list(P), list(S), ty)
                ops_done.append(["insert_block", new, P, S, ty.__name__])
                rerouted += 1 if S else 0
            elif op == "control":
                if not U:
                    continue
                S = rng.sample(U, rng.randint(1, min(len(U), 3)))
                new = scfg.name_gen.new_block_name("synth_head")
                scfg.insert_block_and_control_blocks(new, list(P), list(S))
                ops_done.append(["insert_block_and_control_blocks", new, P, S])
                rerouted += 1
            elif op == "join_returns":
                if any(isinstance(b, RegionBlock) for b in scfg.graph.values()) and mode == "pp":
                    continue
                scfg.join_returns()
                ops_done.append(["join_returns"])
            else:
                if not U:
                    continue
                E = rng.sample(U, rng.randint(1, min(len(U), 3)))
                if mode == "pp" and len(E) > 1:
                    E = E[:1]
                T = [p for p in P if set(scfg.graph[p].jump_targets) & set(E)]
                if not T:
                    continue
                scfg.join_tails_and_exits(list(T), list(E))
                ops_done.append(["join_tails_and_exits", T, E])
                rerouted += 1
        except Exception as e:
            key = attach.exc_key(e)
            ctx.violation("C14", "edit_raised", {"op": op, "exc": key, "P": P, "U": U})
            ops_done.append([op, "raised", key["type"]])
            break
        if post_edit is not None:
            post_edit(ctx, scfg)
        if mode == "pp" and tr.flat and prop == "C14" and not any(o[0] == "add_block" for o in ops_done):
            def walk():
                try:
                    return name_walk(tr.orig, scfg, 300000)
                except Viol as v:
                    raise Viol("C14", f"paths_changed:{v.prop}:{v.kind}", v.detail)
            run_oracle(ctx, "C14.paths_after_edit", walk)
    case = dict(case)
    case["ops"] = ops_done
    nt = rerouted > 0 and any(k.startswith("M-edit.") and k.endswith(".ok") for k in ctx.counters)
    acc.add_ctx(ctx, case, nontrivial_hash=core.sha([case["g"], case["prefix"], ops_done]) if nt else None,
                sample=(acc.evaluations % 997 == 0))
    acc.counters["histories"] += 1
    acc.counters["history_mode." + mode] += 1
    acc.counters["history_prefix." + (case["prefix"] or "none")] += 1
    acc.counters["history_ops"] += len(ops_done)


def run_shard(spec):
    k = spec["kind"]
    if k == "gtests":
        from .graphbase import run_gtests_shard
        return run_gtests_shard(PROPERTY)
    if k == "histories" or (k == "single" and spec["case"].get("kind") == "history"):
        attach.install(("stage", "table", "edit"))
        acc = ShardAcc(PROPERTY)
        if k == "single":
            run_history(spec["case"], acc)
            return acc.result()
        for i in range(spec["start"], spec["start"] + spec["count"]):
            rng = random.Random(f"c14/{spec['seed']}/{i}")
            run_history(gen_history(rng), acc)
        return acc.result()
    return _pipeline.run_shard(spec)


def coverage_extra(m, tier):
    from ..monitors import edit
    return {"contracts_attached_with": "icontract 2.7.3 snapshot/ensure (plain wrapper fallback "
                                       "evaluates the same condition functions)"}
