"""Workload class 'predeclared': graphs that arrive with back edges already
declared (the YAML / dict front end allows it, the repository's tests do it)
and are restructured afterwards.  Shared by C15, C16 (C17 has its own copy
with a single declared arc)."""
import random
import sys

from .. import core, attach, drivers
from ..workloads import graphs
from .base import ShardAcc


def plan(tier, seed, quick_total=600, thorough_total=20000):
    total = quick_total if tier == "quick" else thorough_total
    per = 200 if tier == "quick" else 2000
    return [{"kind": "predeclared", "seed": seed, "start": start, "count": min(per, total - start),
             "tier": tier} for start in range(0, total, per)]


def dfs_back_arcs(g):
    """arcs u->v closing a cycle in a DFS from the entry of the closed CFG g"""
    targeted = {t for v in g.values() for t in v}
    heads = [k for k in g if k not in targeted]
    if len(heads) != 1:
        return []
    sys.setrecursionlimit(10000)
    color = {}
    back = []

    def dfs(u):
        color[u] = 1
        for v in g[u]:
            if color.get(v) == 1:
                back.append((u, v))
            elif v not in color:
                dfs(v)
        color[u] = 2

    dfs(heads[0])
    return back


def make_case(seed, i):
    rng = random.Random(f"predecl/{seed}/{i}")
    cls = rng.choice(["loop", "loop", "struct", "rand_small", "rand"])
    g = graphs.make_case(cls, seed, i)
    if g is None:
        return None
    back = dfs_back_arcs(g)
    if not back:
        return None
    # one arc, several arcs or all of them; a block with two back arcs gets
    # them in either order
    c = rng.random()
    if c < 0.4:
        pick = [rng.choice(back)]
    elif c < 0.7:
        pick = [a for a in back if rng.random() < 0.5] or [rng.choice(back)]
    else:
        pick = list(back)
    be = {}
    for u, v in pick:
        be.setdefault(u, [])
        if v not in be[u]:
            be[u].append(v)
    for u in be:
        if rng.random() < 0.5:
            be[u].reverse()
    return {"kind": "predeclared", "g": g, "backedges": be,
            "payload": rng.choice(["basic", "bytecode"])}


def run_case(case, prop, acc):
    g = {k: tuple(v) for k, v in case["g"].items()}
    be = {k: tuple(v) for k, v in case["backedges"].items()}
    ctx = core.set_ctx(core.Ctx(None))
    attach.ACTIVE.clear()
    attach.ACTIVE.update({prop})
    attach.OPTS["lenient"] = True
    attach.OPTS["wellformed_only"] = True
    try:
        scfg = drivers.make_scfg(g, case.get("payload", "basic"), "ctor", backedges=be)
        done = drivers.run_stages(scfg, "JLB", ctx)
    finally:
        attach.OPTS["lenient"] = False
        attach.OPTS["wellformed_only"] = False
    acc.add_ctx(ctx, case, nontrivial_hash=core.sha([case["g"], case["backedges"]]) if done else None,
                props={prop}, sample=(acc.evaluations % 97 == 0))
    acc.counters["class.predeclared_backedge"] += 1
    acc.counters["predeclared.stages_completed_%d" % len(done)] += 1
    return ctx


def run_shard(spec, prop, profile):
    attach.install(profile)
    acc = ShardAcc(prop)
    if spec["kind"] == "single":
        run_case(spec["case"], prop, acc)
        return acc.result()
    for i in range(spec["start"], spec["start"] + spec["count"]):
        case = make_case(spec["seed"], i)
        if case is None:
            continue
        run_case(case, prop, acc)
    return acc.result()
