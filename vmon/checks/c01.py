"""C01 Restructuring preserves every execution path (DESIGN section 10, C01)."""
from .graphbase import GraphCheck


def nontrivial(f, ctx, tr):
    if tr is None or f["synth"] == 0:
        return False
    be = 0
    for st in tr.stats.values():
        for lab in ("C01a", "C01b"):
            if st.get(lab):
                be += st[lab].get("branch_evals", 0)
    return be > 0


CHECK = GraphCheck(
    "C01",
    oracles={"C01"},
    level="translation_validation",
    rule=(
        "cases: every closed CFG with n<=4 nodes, 1-in-10 (quick) or all (thorough) of n=5, "
        "seeded generated classes (uniform, constructive large, structured+gotos, loop-hostile, "
        "relabelled), CFGs of eligible stdlib code objects (own dis-based builder) and of stdlib "
        "source functions; each is restructured stage by stage and after every stage both walkers "
        "explore the product G x H x live control-variable valuation to a fixed point. "
        "distinct = canonical hash of the input graph; non-trivial = restructuring inserted at "
        "least one synthetic block AND a walker evaluated at least one synthetic branching block"
    ),
    nontrivial=nontrivial,
    deciding=["oracle.C01.name_walk", "oracle.C01.region_walk", "M-stage.restructure_loop"],
)

CHECK.with_gtests = True
