"""C07 Python source round trip is observationally equivalent or refused."""
import ast
import collections

from .. import core, attach
from ..attach import exc_key
from ..progharness import make_from_src
from ..workloads import programs
from .base import ShardAcc
from . import progbase

PROPERTY = "C07"
LEVEL = "translation_validation"
EXHAUSTIVE = False
RULE = (
    "cases: generated functions f(a,b) of seven classes (core, oracle, deep, expr, loop, empty, "
    "boolnest; DESIGN section 4) plus stdlib source functions in the supported subset; each goes "
    "through the real AST2SCFG -> restructure -> SCFG2AST -> unparse -> compile; generated "
    "programs are then executed against the original under CPython for 3 argument tuples x all "
    "decision tapes the original consumes (depth-first, up to 6/9 decisions, 24/120 runs), "
    "comparing return repr, exception type and the ordered log of ext/d/it calls; stdlib functions "
    "contribute 'no internal error, output compiles' only. Refusals (NotImplementedError) are "
    "legal and counted. distinct = hash of the source; non-trivial = the program was accepted, "
    "has at least one if/while/for, and at least 2 runs were compared"
)
ASSUMPTIONS = [
    "CPython executing the original source is the reference model",
    "a run that exhausts its fuel (20k lines / 2k external calls) on either side is inconclusive",
    "mechanism flags of known findings are witnessed in the trace (M-a2s, call log), see DESIGN 7",
]
DECIDING_COUNTERS = ["comparisons", "M-a2s.transform", "M-s2a.transform"]
INCONCLUSIVE_TOLERANCE = 0.02
SHARD_TIMEOUT = {"quick": 900, "thorough": 7200}


def plan(tier, seed):
    return progbase.plan_programs(tier, seed)


def pipeline(src):
    from numba_scfg.core.datastructures.ast_transforms import AST2SCFG, SCFG2AST

    scfg = AST2SCFG(src)
    scfg.restructure()
    fdef = SCFG2AST(src, scfg)
    return scfg, fdef


def run_case(case, acc, tier):
    ctx = core.set_ctx(core.Ctx(case.get("id") or case.get("origin")))
    attach.ACTIVE.clear()
    src = case["src"]
    cls = case["cls"]
    acc.counters["class." + cls] += 1
    if progbase.boolop_hoisting_prone(src):
        ctx.data.setdefault("flags", set()).add("boolop-hoisted-out-of-expression")
    if progbase.shadows_for_builtins(src):
        ctx.data.setdefault("flags", set()).add("for-lowering-reads-shadowed-builtin")
    try:
        scfg, fdef = pipeline(src)
    except NotImplementedError as e:
        k = exc_key(e)
        acc.counters["refused"] += 1
        acc.counters["refused." + cls] += 1
        acc.hist("refusal_site", f"{k['site']}:{k['line']}")
        acc.add_ctx(ctx, case)
        return
    except RecursionError:
        ctx.inconc("recursion")
        acc.add_ctx(ctx, case)
        return
    except Exception as e:
        k = exc_key(e)
        ctx.violation("C07", f"pipeline_raised:{k['type']}@{k['site']}", k, mech=progbase.mech_of(ctx))
        acc.add_ctx(ctx, case)
        return
    try:
        out_src = ast.unparse(ast.fix_missing_locations(fdef))
        compile(out_src, "<regenerated>", "exec")
    except Exception as e:
        ctx.violation("C07", "output_does_not_compile", repr(e)[:300], mech=progbase.mech_of(ctx))
        acc.add_ctx(ctx, case)
        return
    acc.counters["accepted"] += 1
    acc.counters["accepted." + cls] += 1
    # history: converting the very same source again (same process) must give
    # the same program text - nothing may be cached or mutated by the first pass
    try:
        scfg2, fdef2 = pipeline(src)
        out2 = ast.unparse(ast.fix_missing_locations(fdef2))
        acc.counters["second_round_trips"] += 1
        if out2 != out_src:
            ctx.violation("C07", "second_round_trip_of_same_source_differs",
                          {"first": out_src[:800], "second": out2[:800]})
    except Exception as e:
        k = exc_key(e)
        ctx.violation("C07", f"second_round_trip_raised:{k['type']}@{k['site']}", k)
    nt = None
    if cls != "realsrc":
        makers = collections.OrderedDict()
        makers["ref"] = make_from_src(src, "f")
        makers["out"] = make_from_src(out_src, "transformed_f", "<regenerated>")
        diff, runs, fuel = progbase.differential(ctx, makers, cls, tier, False, src)
        acc.counters["comparisons"] += runs
        acc.counters["fuel_runs"] += fuel
        acc.maximum("runs_per_program", runs)
        if diff is not None:
            diff["regenerated"] = out_src[:1500]
            ctx.violation("C07", "behaviour_differs:" + diff["aspect"], diff,
                          mech=progbase.mech_of(ctx))
        f = programs.features(src)
        if runs - fuel >= 2 and (f["ifs"] + f["whiles"] + f["fors"]) > 0:
            nt = core.sha(src)
        if fuel and runs == fuel:
            ctx.inconc("all_runs_out_of_fuel")
    else:
        acc.counters["comparisons"] += 0
        nt = core.sha(src)
    acc.add_ctx(ctx, case, nontrivial_hash=nt, sample=(acc.evaluations % 211 == 0))


def run_shard(spec):
    attach.install(("a2s",))
    acc = ShardAcc(PROPERTY)
    tier = spec.get("tier", "quick")
    for case in progbase.iter_cases(spec):
        progbase.run_with_faults(PROPERTY, run_case, case, acc, tier)
    return acc.result()


def coverage_extra(m, tier):
    c = m["counters"]
    per = {}
    for cls, _, _ in progbase.PROG_CLASSES + [("realsrc", 0, 0)]:
        n = c.get("class." + cls, 0)
        if n:
            per[cls] = {"programs": n, "accepted": c.get("accepted." + cls, 0),
                        "refused": c.get("refused." + cls, 0)}
    return {"programs": int(m["evaluations"]),
            "disagreements_checked": int(c.get("comparisons", 0)),
            "per_class": per,
            "refused_fraction": round(c.get("refused", 0) / max(1, m["evaluations"]), 4)}


def post(m, results, tier, seed):
    # a class that is refused more than half of the time makes the run vacuous
    c = m["counters"]
    for cls, _, _ in progbase.PROG_CLASSES:
        n = c.get("class." + cls, 0)
        if n and c.get("refused." + cls, 0) > 0.5 * n:
            m["inconclusive_count"] += n
            m["inconclusive"].append({"case": cls, "why": "more than half of the class is refused"})
