"""C11 Unsupported source constructs are refused, never mistranslated."""
import ast
import sys

from .. import core, attach
from ..attach import exc_key
from .base import ShardAcc

PROPERTY = "C11"
LEVEL = "exploration"
EXHAUSTIVE = True
RULE = (
    "finite space, enumerated completely: every ast.stmt subclass of the running interpreter "
    "outside {Assign, AugAssign, Expr, Return, Pass, Break, Continue, If, While, For} (1-4 variants "
    "per class, e.g. a nested def named like the enclosing function, try/finally, multi-item "
    "with; built as AST nodes so that parse-time restrictions hide nothing, and fed both as AST "
    "list and as source text) x nine structural positions (top "
    "level first / middle / last, if-arm, else-arm, loop body, loop else, after a loop, nested two "
    "levels deep) x three carrier functions; AST2SCFG (through the M-a2s recorder, which confirms "
    "the node reached handle_ast_node) must raise NotImplementedError; any graph returned or any "
    "other exception is a violation. Non-function inputs (module of statements, class, async def, "
    "lambda source, empty string, expression) must be refused with any exception. distinct = "
    "(statement class, variant, position, carrier); non-trivial = the unsupported node was dispatched to "
    "handle_ast_node (or the input is a non-function)"
)
ASSUMPTIONS = [
    "a statement class of a future interpreter for which the harness has no constructor template "
    "makes the run inconclusive, not violated",
    "for non-function input the statement only says 'refused': any exception counts",
]
DECIDING_COUNTERS = ["M-a2s.handle_ast_node", "c11.unsupported_dispatched"]
SHARD_TIMEOUT = {"quick": 600, "thorough": 600}

SUPPORTED = ("Assign", "AugAssign", "Expr", "Return", "Pass", "Break", "Continue", "If", "While",
             "For")


def _e(src):
    return ast.parse(src, mode="eval").body


def _s(src):
    return ast.parse(src).body[0]


def templates():
    """name -> list of constructors, each building one statement node of that
    class (several variants per class: plain, sharing the carrier's name, with
    the optional parts of the grammar)."""
    t = {
        "FunctionDef": [
            lambda: _s("def g(q):\n    ext(100, q)\n    return q\n"),
            # a nested function called like the enclosing one (recursive helper)
            lambda: _s("def f(a, b):\n    ext(100, a)\n    return a\n"),
            lambda: _s("def f():\n    pass\n"),
            lambda: _s("@ext\ndef g():\n    return 1\n"),
        ],
        "AsyncFunctionDef": [
            lambda: _s("async def g(q):\n    return q\n"),
            lambda: _s("async def f(a, b):\n    return a\n"),
        ],
        "ClassDef": [
            lambda: _s("class G:\n    z = ext(100, 1)\n"),
            lambda: _s("class f:\n    pass\n"),
        ],
        "Delete": [lambda: _s("del x"), lambda: _s("del a[0]")],
        "AnnAssign": [lambda: _s("x: int = ext(100, 1)"), lambda: _s("x: int")],
        "AsyncFor": [lambda: ast.AsyncFor(target=ast.Name("q", ast.Store()),
                                          iter=_e("it(100, 2)"),
                                          body=[_s("ext(101, q)")], orelse=[])],
        "With": [
            lambda: _s("with ext(100, a) as q:\n    ext(101, q)\n"),
            lambda: _s("with ext(100, a), ext(101, b):\n    x = 1\n"),
        ],
        "AsyncWith": [lambda: ast.AsyncWith(items=[ast.withitem(_e("ext(100, a)"), None)],
                                            body=[_s("ext(101, 1)")])],
        "Match": [
            lambda: _s("match a:\n    case 1:\n        ext(100, 1)\n    case _:\n        ext(101, 2)\n"),
            lambda: _s("match a:\n    case [p, q] if p:\n        x = p\n"),
        ],
        "Raise": [lambda: _s("raise ValueError(ext(100, 1))"), lambda: ast.Raise(None, None)],
        "Try": [
            lambda: _s("try:\n    ext(100, 1)\nexcept Exception:\n    ext(101, 2)\n"),
            lambda: _s("try:\n    x = 1\nfinally:\n    y = 2\n"),
            lambda: _s("try:\n    x = 1\nexcept ValueError:\n    pass\nelse:\n    y = 2\n"),
        ],
        "TryStar": [lambda: _s("try:\n    ext(100, 1)\nexcept* Exception:\n    ext(101, 2)\n")],
        "Assert": [lambda: _s("assert ext(100, a)"), lambda: _s("assert a, 'message'")],
        "Import": [lambda: _s("import os"), lambda: _s("import os.path as x")],
        "ImportFrom": [lambda: _s("from os import path"), lambda: _s("from os import path as x")],
        "Global": [lambda: _s("global zz"), lambda: _s("global x")],
        "Nonlocal": [lambda: ast.Nonlocal(names=["zz"])],
        "TypeAlias": [lambda: _s("type T = int")],
    }
    return t


CARRIERS = [
    "def f(a, b):\n    x = ext(1, a)\n    HOLE0\n    y = 1\n    HOLE1\n    if d(2):\n        x += 1\n        HOLE2\n    else:\n        HOLE3\n        y += 1\n    while d(3):\n        HOLE4\n        x += 2\n    else:\n        HOLE5\n    HOLE6\n    for i in it(4, 2):\n        if d(5):\n            while d(6):\n                HOLE7\n                break\n    return x + y\n    HOLE8\n",
    "def f(a, b):\n    HOLE0\n    for i in it(1, a):\n        HOLE4\n        if i:\n            HOLE2\n            continue\n        else:\n            HOLE3\n    else:\n        HOLE5\n    HOLE6\n    x = 0\n    HOLE1\n    if a and b:\n        if b:\n            HOLE7\n    return x\n    HOLE8\n",
    "def f(a, b):\n    HOLE0\n    return a\n",
]
POSITIONS = ["top_first", "top_middle", "if_arm", "else_arm", "loop_body", "loop_else",
             "after_loop", "nested_deep", "last_statement"]


def build(carrier_src, pos, node):
    """carrier with HOLE<pos> replaced by the node and all other holes removed."""
    tree = ast.parse(carrier_src.replace("HOLE", "HOLE_"))
    found = [False]

    class R(ast.NodeTransformer):
        def visit_Expr(self, n):
            if isinstance(n.value, ast.Name) and n.value.id.startswith("HOLE_"):
                if n.value.id == f"HOLE_{pos}":
                    found[0] = True
                    return node
                return None
            return n

    tree = R().visit(tree)
    if not found[0]:
        return None
    # bodies must not be empty after removing holes
    for n in ast.walk(tree):
        for f in ("body", "orelse"):
            b = getattr(n, f, None)
            if isinstance(b, list) and f == "body" and not b and not isinstance(n, ast.Module):
                b.append(ast.Pass())
    ast.fix_missing_locations(tree)
    return tree.body[0]


SUITES = ["if", "else", "while", "welse", "for", "felse"]


def nest_function(path, node):
    """f(a, b) with `node` at the end of the nesting path (a sequence over
    SUITES: arm of an if, its else arm, loop body, loop else clause ...); every
    suite on the way also holds ordinary statements before and after."""
    uid = [10]

    def k():
        uid[0] += 1
        return uid[0]

    def wrap(inner, kind):
        pre = _s(f"x = ext({k()}, x)")
        post = _s(f"y = ext({k()}, y)")
        other = [_s(f"ext({k()}, 0)")]
        if kind == "if":
            st = ast.If(test=_e(f"d({k()})"), body=inner, orelse=[])
        elif kind == "else":
            st = ast.If(test=_e(f"d({k()})"), body=other, orelse=inner)
        elif kind == "while":
            st = ast.While(test=_e(f"d({k()})"), body=inner, orelse=[])
        elif kind == "welse":
            st = ast.While(test=_e(f"d({k()})"), body=other, orelse=inner)
        elif kind == "for":
            st = ast.For(target=ast.Name(f"i{k()}", ast.Store()), iter=_e(f"it({k()}, 2)"),
                         body=inner, orelse=[])
        else:
            st = ast.For(target=ast.Name(f"i{k()}", ast.Store()), iter=_e(f"it({k()}, 2)"),
                         body=other, orelse=inner)
        return [pre, st, post]

    body = [_s(f"x = ext({k()}, x)"), node, _s(f"y = ext({k()}, y)")]
    for kind in reversed(path):
        body = wrap(body, kind)
    fn = ast.FunctionDef(
        name="f", args=ast.parse("def f(a, b): pass").body[0].args,
        body=[_s("x = a"), _s("y = b")] + body + [_s("return x + y")],
        decorator_list=[], returns=None, type_comment=None, type_params=[])
    return ast.fix_missing_locations(fn)


def nest_paths(depth):
    import itertools
    for d in range(1, depth + 1):
        yield from itertools.product(SUITES, repeat=d)


def plan(tier, seed):
    shards = [{"kind": "all", "tier": tier}]
    if tier == "quick":
        shards.append({"kind": "nest", "depth": 3, "shard": 0, "nshards": 1, "variants": 1, "tier": tier})
        shards.append({"kind": "nest_sample", "seed": seed, "count": 400, "mindepth": 4, "maxdepth": 7,
                       "tier": tier})
    else:
        for s in range(32):
            shards.append({"kind": "nest", "depth": 5, "shard": s, "nshards": 32, "variants": 4,
                           "tier": tier})
        for s in range(8):
            shards.append({"kind": "nest_sample", "seed": seed * 8 + s, "count": 2500, "mindepth": 6,
                           "maxdepth": 10, "tier": tier})
    return shards


def run_nest(spec, acc):
    """depth: the unsupported statement below 1..D enclosing suites"""
    import random

    from numba_scfg.core.datastructures.ast_transforms import AST2SCFG

    tmpl = templates()
    names = sorted(tmpl)
    if spec["kind"] == "single":
        c = spec["case"]
        todo = [(tuple(c["path"]), c["stmt"], c["variant"])]
    elif spec["kind"] == "nest":
        todo = []
        for pi, path in enumerate(nest_paths(spec["depth"])):
            if pi % spec["nshards"] != spec["shard"]:
                continue
            for name in names:
                for vi in range(min(spec["variants"], len(tmpl[name]))):
                    # with one variant per class the variant rotates with the path
                    v = (vi + pi) % len(tmpl[name]) if spec["variants"] == 1 else vi
                    todo.append((path, name, v))
    else:
        rng = random.Random(f"c11n/{spec['seed']}")
        todo = []
        for _ in range(spec["count"]):
            d = rng.randint(spec["mindepth"], spec["maxdepth"])
            name = rng.choice(names)
            todo.append((tuple(rng.choice(SUITES) for _ in range(d)), name,
                         rng.randrange(len(tmpl[name]))))
    for path, name, vi in todo:
        try:
            node = tmpl[name][vi]()
        except SyntaxError:
            continue
        ctx = core.set_ctx(core.Ctx(None))
        case = {"kind": "nested", "stmt": name, "variant": vi, "path": list(path)}
        acc.counters["nest.depth_%d" % len(path)] += 1
        outcome = None
        fn = nest_function(path, node)
        forms = [("ast", [fn])]
        try:
            src_text = ast.unparse(fn)
            ast.parse(src_text)
            forms.append(("source", src_text))
        except Exception:
            pass
        for form, arg in forms:
            try:
                AST2SCFG(arg)
                outcome = "graph_returned"
            except NotImplementedError:
                outcome = "refused"
            except RecursionError:
                outcome = "other_exception:RecursionError"
            except Exception as e:
                outcome = "other_exception:" + type(e).__name__
            if outcome != "refused":
                break
        dispatched = ctx.data.get("a2s_nodes", {}).get(name, 0) > 0
        if dispatched:
            ctx.hit("c11.unsupported_dispatched")
        if outcome != "refused":
            ctx.violation("C11", f"nested:{outcome}:{name}",
                          {"depth": len(path), "path": list(path), "variant": vi, "form": form,
                           "source": ast.unparse(nest_function(path, tmpl[name][vi]()))[:900]})
        acc.add_ctx(ctx, case, nontrivial_hash=core.sha([name, vi, list(path)]) if dispatched else None,
                    sample=(acc.evaluations % 997 == 0))


def run_shard(spec):
    from numba_scfg.core.datastructures.ast_transforms import AST2SCFG

    attach.install(("a2s",))
    acc = ShardAcc(PROPERTY)
    if spec["kind"] in ("nest", "nest_sample") or (
            spec["kind"] == "single" and spec["case"].get("kind") == "nested"):
        run_nest(spec, acc)
        return acc.result()
    stmt_classes = sorted(
        n for n, c in vars(ast).items()
        if isinstance(c, type) and issubclass(c, ast.stmt) and c is not ast.stmt
        and n not in SUPPORTED)
    tmpl = templates()
    acc.extra["statement_classes"] = stmt_classes
    uncovered = [n for n in stmt_classes if n not in tmpl]
    single = spec.get("case") if spec["kind"] == "single" else None
    for name in stmt_classes:
        if name not in tmpl:
            ctx = core.Ctx(name)
            ctx.inconc("no_constructor_template", name)
            acc.add_ctx(ctx, {"kind": "unsupported", "stmt": name})
            continue
        for vi, make in enumerate(tmpl[name]):
          for ci, carrier in enumerate(CARRIERS):
            for pi, pos in enumerate(POSITIONS):
                if single and (single["stmt"], single.get("variant", 0), single["carrier"],
                               single["position"]) != (name, vi, ci, pos):
                    continue
                try:
                    node = make()
                except SyntaxError:
                    continue
                fn = build(carrier, pi, node)
                if fn is None:
                    continue
                case = {"kind": "unsupported", "stmt": name, "variant": vi, "carrier": ci,
                        "position": pos}
                ctx = core.set_ctx(core.Ctx(None))
                acc.counters["stmt." + name] += 1
                acc.counters["position." + pos] += 1
                outcome = None
                # both input forms: a list of AST nodes and source text
                forms = [("ast", lambda: [fn])]
                try:
                    src_text = ast.unparse(fn)
                    ast.parse(src_text)
                    forms.append(("source", lambda: src_text))
                except Exception:
                    pass
                for form, arg in forms:
                    try:
                        AST2SCFG(arg())
                        outcome = "graph_returned"
                    except NotImplementedError:
                        outcome = "refused"
                    except RecursionError:
                        outcome = "other_exception:RecursionError"
                    except Exception as e:
                        outcome = "other_exception:" + type(e).__name__
                    if outcome != "refused":
                        break
                    if form == "ast":
                        # the transformer rewrites the tree in place: rebuild it
                        fn = build(carrier, pi, make())
                if outcome == "refused":
                    # history: a transformer that refused once must refuse again
                    # (never hand out its half-built graph on a second call)
                    from numba_scfg.core.datastructures.ast_transforms import AST2SCFGTransformer
                    fn2 = build(carrier, pi, make())
                    try:
                        t = AST2SCFGTransformer([fn2])
                        for attempt, call in enumerate((t.transform_to_SCFG, t.transform_to_ASTCFG,
                                                        t.transform_to_SCFG)):
                            try:
                                call()
                                outcome = f"graph_returned_on_call_{attempt + 1}_of_same_transformer"
                                break
                            except NotImplementedError:
                                pass
                            except Exception as e:
                                outcome = f"other_exception_on_repeated_call:{type(e).__name__}"
                                break
                    except NotImplementedError:
                        pass
                    ctx.hit("c11.repeated_call_histories")
                nodes = ctx.data.get("a2s_nodes", {})
                dispatched = nodes.get(name, 0) > 0
                if dispatched:
                    ctx.hit("c11.unsupported_dispatched")
                if outcome != "refused":
                    try:
                        src = ast.unparse(fn)
                    except Exception:
                        src = "<unparse failed>"
                    ctx.violation("C11", f"{outcome}:{name}", {"position": pos, "carrier": ci,
                                                               "variant": vi, "form": form,
                                                               "source": src[:600]})
                elif not dispatched and pos != "last_statement":
                    # refused, but for another reason than the statement under test
                    ctx.hit("c11.refused_before_dispatch")
                nt = core.sha([name, vi, ci, pos]) if (dispatched or pos == "last_statement") else None
                acc.add_ctx(ctx, case, nontrivial_hash=nt, sample=(acc.evaluations % 97 == 0))
    # non-function inputs
    nonfn = {
        "module_with_assignment": "x = 1\n",
        "class": "class A:\n    def m(self):\n        return 1\n",
        "empty_string": "",
        "async_def": "async def f(a):\n    return a\n",
        "lambda_source": "f = lambda a: a\n",
        "expression": "1 + 2\n",
        "import": "import os\n",
        "two_statements_function_second": "x = 1\ndef f(a):\n    return a\n",
    }
    if not single:
        for label, src in nonfn.items():
            ctx = core.set_ctx(core.Ctx(None))
            case = {"kind": "nonfunction", "label": label, "src": src}
            try:
                AST2SCFG(src)
                ctx.violation("C11", "non_function_accepted:" + label, src)
            except Exception as e:
                acc.hist("non_function_refusal", f"{label}:{type(e).__name__}")
            acc.add_ctx(ctx, case, nontrivial_hash=core.sha(["nonfn", label]))
        for obj_label, obj in (("int_object", 42), ("empty_list", []), ("none", None)):
            ctx = core.set_ctx(core.Ctx(None))
            try:
                AST2SCFG(obj)
                ctx.violation("C11", "non_function_accepted:" + obj_label, repr(obj))
            except Exception as e:
                acc.hist("non_function_refusal", f"{obj_label}:{type(e).__name__}")
            acc.add_ctx(ctx, {"kind": "nonfunction", "label": obj_label},
                        nontrivial_hash=core.sha(["nonfn", obj_label]))
    acc.extra["uncovered_statement_classes"] = uncovered
    return acc.result()


def coverage_extra(m, tier):
    ex = m["extra"]
    return {"statement_classes": (ex.get("statement_classes") or [[]])[0],
            "uncovered_statement_classes": (ex.get("uncovered_statement_classes") or [[]])[0],
            "exhaustive": True}
