"""C04 The region hierarchy is self-consistent (DESIGN section 10, C04)."""
from .graphbase import GraphCheck


def nontrivial(f, ctx, tr):
    return f["regions"] > 0


CHECK = GraphCheck(
    "C04",
    oracles={"C04", "C01"},
    exh_quick_full=False,
    rule=(
        "cases as C01; after every stage the hierarchy walker checks name uniqueness, header/"
        "exiting membership, scope of every target and back edge, region targets == exiting "
        "targets (recursively), parent links by name and shared subregion; the region-by-region "
        "walker of C01 enforces enter-at-header / leave-from-exiting dynamically and the leaf sets "
        "of both walkers are compared. distinct = hash of the input graph; non-trivial = at least "
        "one region exists"
    ),
    nontrivial=nontrivial,
    deciding=["oracle.C04.hierarchy", "oracle.C01.region_walk"],
)

CHECK.with_gtests = True


# ---------------------------------------------------------------- edit histories
# The hierarchy must also be self-consistent on a graph that is being edited
# through the public primitives - including after an edit the library refused
# half-way (unknown predecessor): whatever it rerouted before the refusal must
# have been rerouted at every level.  The C14 history generator is reused with
# the hierarchy walker run after every edit.
import random as _random

from .. import attach as _attach
from ..attach import run_oracle as _run_oracle
from .base import ShardAcc as _ShardAcc
from . import c14 as _c14

_plan0 = CHECK.plan
_run0 = CHECK.run_shard


def _plan(tier, seed):
    shards = _plan0(tier, seed)
    total = 3000 if tier == "quick" else 100000
    per = 250 if tier == "quick" else 2500
    for start in range(0, total, per):
        shards.append({"kind": "edit_histories", "seed": seed, "start": start, "count": per,
                       "tier": tier})
    return shards


def _post_edit(ctx, scfg):
    from ..oracles.hierarchy import check_hierarchy

    if _c14._open_after_refusal(scfg) is not None:
        return
    ctx.hit("C04.hierarchy_after_edit")
    _run_oracle(ctx, "C04.hierarchy", check_hierarchy, scfg)


def _run_shard(spec):
    if spec["kind"] == "edit_histories" or (
            spec["kind"] == "single" and spec["case"].get("kind") == "history"):
        _attach.install(("stage", "table"))
        acc = _ShardAcc("C04")
        if spec["kind"] == "single":
            _c14.run_history(spec["case"], acc, _post_edit, False, "C04")
            return acc.result()
        for i in range(spec["start"], spec["start"] + spec["count"]):
            rng = _random.Random(f"c04h/{spec['seed']}/{i}")
            case = _c14.gen_history(rng)
            case["refusals"] = rng.random() < 0.6
            _c14.run_history(case, acc, _post_edit, False, "C04")
        return acc.result()
    return _run0(spec)


CHECK.plan = _plan
CHECK.run_shard = _run_shard
