"""C04 The region hierarchy is self-consistent (DESIGN section 10, C04)."""
from .graphbase import GraphCheck


def nontrivial(f, ctx, tr):
    return f["regions"] > 0


CHECK = GraphCheck(
    "C04",
    oracles={"C04", "C01"},
    exh_quick_full=False,
    rule=(
        "cases as C01; after every stage the hierarchy walker checks name uniqueness, header/"
        "exiting membership, scope of every target and back edge, region targets == exiting "
        "targets (recursively), parent links by name and shared subregion; the region-by-region "
        "walker of C01 enforces enter-at-header / leave-from-exiting dynamically and the leaf sets "
        "of both walkers are compared. distinct = hash of the input graph; non-trivial = at least "
        "one region exists"
    ),
    nontrivial=nontrivial,
    deciding=["oracle.C04.hierarchy", "oracle.C01.region_walk"],
)

CHECK.with_gtests = True
