"""C05 Original blocks are conserved (DESIGN section 10, C05)."""
from .graphbase import GraphCheck


def nontrivial(f, ctx, tr):
    return f["synth"] > 0


CHECK = GraphCheck(
    "C05",
    oracles={"C05"},
    exh_quick_full=True,
    rule=(
        "cases as C02 with plain, bytecode-range and AST payloads; after every stage the multiset "
        "of original leaves is compared with the input blocks (type, payload fields by identity, "
        "arity, positional successors renamed only to synthetic blocks/regions). distinct = hash of "
        "the input graph; non-trivial = at least one synthetic block was inserted"
    ),
    nontrivial=nontrivial,
    deciding=["oracle.C05.conserve"],
)
