"""C05 Original blocks are conserved (DESIGN section 10, C05)."""
from .graphbase import GraphCheck


def nontrivial(f, ctx, tr):
    return f["synth"] > 0


CHECK = GraphCheck(
    "C05",
    oracles={"C05"},
    exh_quick_full=True,
    rule=(
        "cases as C02 with plain, bytecode-range and AST payloads; after every stage the multiset "
        "of original leaves is compared with the input blocks (type, payload fields by identity, "
        "arity, positional successors renamed only to synthetic blocks/regions). distinct = hash of "
        "the input graph; non-trivial = at least one synthetic block was inserted"
    ),
    nontrivial=nontrivial,
    deciding=["oracle.C05.conserve"],
)


# ---------------------------------------------------------------- edit histories
# Conservation under the public edit primitives: in a path-preserving history
# (single-successor insertions, control insertions, closing) every input block
# keeps its payload and its successors, each renamed at most to an inserted
# block or an enclosing region - also after an edit the library refused
# half-way.
import random as _random

from .. import attach as _attach
from ..attach import run_oracle as _run_oracle
from .base import ShardAcc as _ShardAcc
from . import c14 as _c14

_plan0 = CHECK.plan
_run0 = CHECK.run_shard


def _plan(tier, seed):
    shards = _plan0(tier, seed)
    total = 3000 if tier == "quick" else 100000
    per = 250 if tier == "quick" else 2500
    for start in range(0, total, per):
        shards.append({"kind": "edit_histories", "seed": seed, "start": start, "count": per,
                       "tier": tier})
    return shards


def _post_edit(ctx, scfg):
    from ..oracles.conserve import check_conserved

    tr = _attach.track_of(scfg, create=False)
    if tr is None or not tr.flat or _c14._open_after_refusal(scfg) is not None:
        return
    ctx.hit("C05.conservation_after_edit")
    _run_oracle(ctx, "C05.conserve", check_conserved, tr.orig, tr.blocks, scfg, True, tr.payload)


def _run_shard(spec):
    if spec["kind"] == "edit_histories" or (
            spec["kind"] == "single" and spec["case"].get("kind") == "history"):
        _attach.install(("stage", "table"))
        acc = _ShardAcc("C05")
        if spec["kind"] == "single":
            _c14.run_history(spec["case"], acc, _post_edit, False, "C05")
            return acc.result()
        for i in range(spec["start"], spec["start"] + spec["count"]):
            rng = _random.Random(f"c05h/{spec['seed']}/{i}")
            case = _c14.gen_history(rng)
            case["mode"] = "pp"
            case["refusals"] = rng.random() < 0.6
            _c14.run_history(case, acc, _post_edit, False, "C05")
        return acc.result()
    return _run0(spec)


CHECK.plan = _plan
CHECK.run_shard = _run_shard


# repeated-stage histories (restructure_branch / the whole pipeline a second
# time on the same object): conservation of the input blocks is decided there
CHECK.repeat_histories = True
CHECK.repeat_oracles = {"C05"}
