"""Shared pieces of the program-based checks (C07, C08, C10, C12)."""
import ast

from .. import core
from ..attach import exc_key
from ..progharness import explore, make_from_src
from ..workloads import programs, corpus

# (class, quick, thorough)
PROG_CLASSES = [
    ("core", 700, 40000),
    ("oracle", 500, 30000),
    ("deep", 300, 15000),
    ("expr", 300, 15000),
    ("loop", 300, 15000),
    ("empty", 200, 8000),
    ("boolnest", 200, 8000),
    ("dead", 200, 8000),
    ("forms", 300, 12000),
    ("chains", 300, 12000),
]


def plan_programs(tier, seed, scale=1.0, per_quick=50, per_thorough=500, real=True, faults=True):
    quick = tier == "quick"
    shards = []
    for cls, q, t in PROG_CLASSES:
        total = max(1, int((q if quick else t) * scale))
        per = per_quick if quick else per_thorough
        for start in range(0, total, per):
            shards.append({"kind": "programs", "cls": cls, "seed": seed, "start": start,
                           "count": min(per, total - start), "tier": tier})
    if faults:
        # fault histories (M-fault): every case is preceded, in the same
        # process, by runs of the same case aborted by an injected exception
        for cls, q, t in PROG_CLASSES:
            total = max(1, int((q if quick else t) * scale * 0.1))
            per = 25 if quick else 250
            for start in range(0, total, per):
                shards.append({"kind": "programs", "cls": cls, "seed": seed, "start": 500000 + start,
                               "count": min(per, total - start), "tier": tier, "faults": 2})
    if real:
        nsh = 16
        for s in range(nsh):
            shards.append({"kind": "realsrc", "shard": s, "nshards": nsh,
                           "limit_files": 120 if quick else None, "tier": tier})
    return shards


def for_target_read_outside(src):
    """static: some for-loop target is read outside the body of its loop."""
    try:
        t = ast.parse(src)
    except SyntaxError:
        return False
    fors = [n for n in ast.walk(t) if isinstance(n, ast.For)]
    for f in fors:
        tnames = {n.id for n in ast.walk(f.target) if isinstance(n, ast.Name)}
        inside = set()
        for s in f.body:
            for n in ast.walk(s):
                inside.add(id(n))
        for n in ast.walk(t):
            if isinstance(n, ast.Name) and isinstance(n.ctx, ast.Load) and n.id in tnames \
                    and id(n) not in inside:
                return True
            # an augmented assignment reads its target too (y += 2)
            if isinstance(n, ast.AugAssign) and isinstance(n.target, ast.Name) \
                    and n.target.id in tnames and id(n) not in inside:
                return True
    return False


def shadows_for_builtins(src):
    """static: the function binds `iter` or `next` and contains a for loop (the
    for-lowering reads both builtins by name)."""
    try:
        t = ast.parse(src)
    except SyntaxError:
        return False
    if not any(isinstance(n, ast.For) for n in ast.walk(t)):
        return False
    for n in ast.walk(t):
        if isinstance(n, ast.arg) and n.arg in ("iter", "next"):
            return True
        if isinstance(n, ast.Name) and isinstance(n.ctx, ast.Store) and n.id in ("iter", "next"):
            return True
    return False


def boolop_hoisting_prone(src):
    """static witness of mechanism D8, read off the SOURCE (not off the
    library's call stack, which a refactoring changes): the front end lowers an
    and/or that it reaches through operands of and/or, comparisons, binary
    operations and positional call arguments.  It evaluates such an and/or
    eagerly, in front of the enclosing expression, when (i) it sits below a
    comparison / binary operation / call argument, or (ii) it sits in the LAST
    operand of an enclosing and/or (the last two operands of a chain are
    lowered together, earlier ones lazily).  Everything else (an and/or at the
    root of a statement's expression, in a non-last operand, under not / a
    conditional expression / subscript / lambda / comprehension ...) is either
    lowered lazily or left to Python."""
    try:
        t = ast.parse(src)
    except SyntaxError:
        return False

    def reached(node):
        """and/or nodes the lowering reaches below `node`"""
        out = []
        if isinstance(node, ast.BoolOp):
            out.append(node)
            for v in node.values:
                out += reached(v)
        elif isinstance(node, ast.Compare):
            for v in [node.left] + list(node.comparators):
                out += reached(v)
        elif isinstance(node, ast.BinOp):
            out += reached(node.left) + reached(node.right)
        elif isinstance(node, ast.Call):
            for v in node.args:
                out += reached(v)
        return out

    def prone(node):
        if isinstance(node, ast.BoolOp):
            if reached(node.values[-1]):
                return True
            return any(prone(v) for v in node.values)
        if isinstance(node, ast.Compare):
            kids = [node.left] + list(node.comparators)
        elif isinstance(node, ast.BinOp):
            kids = [node.left, node.right]
        elif isinstance(node, ast.Call):
            kids = list(node.args)
        else:
            return False
        return any(reached(k) for k in kids)

    for st in ast.walk(t):
        if not isinstance(st, ast.stmt):
            continue
        for f, v in ast.iter_fields(st):
            if isinstance(v, ast.expr) and prone(v):
                return True
            if isinstance(v, list):
                for x in v:
                    if isinstance(x, ast.expr) and prone(x):
                        return True
    return False


def mech_of(ctx):
    fl = ctx.data.get("flags") or set()
    return "+".join(sorted(fl)) if fl else None


def differential(ctx, makers, cls, tier, merge_name_errors=False, src=None):
    """Run reference and candidate over argument tuples x enumerated tapes.
    -> (first difference or None, runs, fuel_hits)"""
    maxlen = 6 if tier == "quick" else 9
    maxruns = 24 if tier == "quick" else 120
    runs = 0
    fuel = 0
    ref, cand = list(makers)
    read_outside = None
    for args in programs.arg_tuples(cls):
        for tape, res in explore(makers, args, maxlen, maxruns, merge_name_errors):
            runs += 1
            a, b = res[ref], res[cand]
            if a[0] == ("fuel",) or b[0] == ("fuel",):
                fuel += 1
                continue
            if a[3]:
                if read_outside is None:
                    read_outside = for_target_read_outside(src) if src else False
                if read_outside:
                    ctx.data.setdefault("flags", set()).add("for-target-read-after-empty-iteration")
            if a[0] != b[0]:
                aspect = "exception" if "exc" in (a[0][0], b[0][0]) else "return"
                return ({"aspect": aspect, "args": repr(args), "tape": tape, "ref": a[0],
                         "got": b[0]}, runs, fuel)
            if a[1] != b[1]:
                i = 0
                while i < min(len(a[1]), len(b[1])) and a[1][i] == b[1][i]:
                    i += 1
                return ({"aspect": "calls", "args": repr(args), "tape": tape,
                         "at": i, "ref": a[1][i:i + 3], "got": b[1][i:i + 3]}, runs, fuel)
    return None, runs, fuel


def iter_cases(spec):
    nf = spec.get("faults")
    for case in _iter_cases(spec):
        if nf:
            case["faults"] = nf
        yield case


def run_with_faults(prop, run_case, case, acc, *args):
    """run_case(case, acc, *args), preceded - when the case asks for it - by
    runs of the same case on throw-away accounting that are aborted by an
    injected exception at a random library call (M-fault)."""
    nf = case.get("faults")
    if nf:
        import random

        from ..monitors import fault
        from .base import ShardAcc

        scratch = ShardAcc(prop)
        c0 = {k: v for k, v in case.items() if k not in ("faults", "fault_plan")}
        fctx = core.Ctx(None)
        rng = random.Random(core.sha([c0.get("src"), "fault"]))
        sites = fault.inject_around(fctx, rng, lambda: run_case(c0, scratch, *args), nf,
                                    cold_key=(prop, c0.get("cls")), record=case)
        acc.counters.update(fctx.counters)
        acc.counters["cases_run_after_injected_faults"] += 1
        for s in sites:
            acc.hist("fault_site", s.split(":")[0])
    return run_case(case, acc, *args)


def _iter_cases(spec):
    k = spec["kind"]
    if k == "programs":
        for i in range(spec["start"], spec["start"] + spec["count"]):
            yield {"kind": "program", "cls": spec["cls"], "src": programs.make_program(
                spec["cls"], spec["seed"], i), "id": [spec["cls"], spec["seed"], i]}
    elif k == "realsrc":
        for path, name, src in corpus.stdlib_source_functions(
                spec["shard"], spec["nshards"], spec.get("limit_files")):
            yield {"kind": "program", "cls": "realsrc", "src": src, "origin": f"{path}:{name}"}
    elif k == "single":
        yield spec["case"]
