"""Shared shard accounting for all checks."""
import collections

from .. import core

MAX_FINDINGS_PER_KEY = 3
MAX_INCONCLUSIVE = 10


class ShardAcc:
    def __init__(self, prop):
        self.prop = prop
        self.evaluations = 0
        self.nontrivial = set()
        self.findings = []
        self.finding_counts = collections.Counter()
        self.per_key = collections.Counter()
        self.counters = collections.Counter()
        self.inconclusive = []
        self.inconclusive_count = 0
        self.samples = []
        self.maxima = {}
        self.histograms = collections.defaultdict(collections.Counter)
        self.extra = {}

    def key_of(self, f):
        kind = f["kind"]
        if f.get("mech"):
            kind = f"{kind}@{f['mech']}"
        if f["prop"] != self.prop:
            kind = f"{f['prop']}:{kind}"
        return kind

    def maximum(self, name, v):
        if v is not None and v > self.maxima.get(name, -1):
            self.maxima[name] = v

    def hist(self, name, bucket):
        self.histograms[name][str(bucket)] += 1

    def add_ctx(self, ctx, case, nontrivial_hash=None, props=None, sample=False):
        """Fold what the monitors saw during one case into the shard result.

        props: which properties' findings count for this check (default: all
        findings are charged to this check, relabelled by key_of)."""
        self.evaluations += 1
        self.counters.update(ctx.counters)
        if nontrivial_hash is not None:
            self.nontrivial.add(nontrivial_hash)
        seen_keys = set()
        for f in ctx.findings:
            if props is not None and f["prop"] not in props:
                self.counters["other_property_findings." + f["prop"]] += 1
                continue
            key = self.key_of(f)
            if key in seen_keys:
                continue
            seen_keys.add(key)
            self.finding_counts[key] += 1
            if self.per_key[key] < MAX_FINDINGS_PER_KEY:
                self.per_key[key] += 1
                ff = dict(f)
                ff["key"] = key
                ff["case"] = case
                self.findings.append(ff)
        if ctx.inconclusive:
            self.inconclusive_count += 1
            if len(self.inconclusive) < MAX_INCONCLUSIVE:
                self.inconclusive.append({"case": case, "why": ctx.inconclusive[:3]})
        if sample and len(self.samples) < 3:
            self.samples.append(case)

    def add_finding(self, kind, detail, case, mech=None, stage=None):
        f = {"prop": self.prop, "kind": kind, "detail": core.jsonable(detail),
             "mech": mech, "stage": stage}
        key = self.key_of(f)
        self.finding_counts[key] += 1
        if self.per_key[key] < MAX_FINDINGS_PER_KEY:
            self.per_key[key] += 1
            f["key"] = key
            f["case"] = case
            self.findings.append(f)

    def result(self):
        return {
            "evaluations": self.evaluations,
            "nontrivial": sorted(self.nontrivial),
            "findings": self.findings,
            "finding_counts": dict(self.finding_counts),
            "counters": dict(self.counters),
            "inconclusive": self.inconclusive,
            "inconclusive_count": self.inconclusive_count,
            "samples": self.samples,
            "maxima": self.maxima,
            "histograms": {k: dict(v) for k, v in self.histograms.items()},
            "extra": self.extra,
        }
