"""C18 Generated names are fresh: never reused, never clobbering existing blocks."""
import random

from .. import core, attach, drivers
from ..hier import all_items
from ..workloads import graphs
from .base import ShardAcc

PROPERTY = "C18"
LEVEL = "exploration"
EXHAUSTIVE = False
RULE = (
    "three workloads under the M-names monitor (hand-out history per generator, online check "
    "against every block/region/variable name present in the graphs sharing the generator, "
    "add_block never replaces a block of another type): (a) random sequences of 20-200 name "
    "requests over block/region/variable kinds incl. kinds shared between them; (b) graphs whose "
    "block names lie in the generator's own namespace (synth_asign_block_0, loop_region_0, "
    "indices 0..100, runs of one kind such as _9/_10) through all stages, built by SCFG(graph) "
    "and, every third one, by add_block on an empty SCFG; (c) stage pipelines interleaved with to_dict/from_dict and to_yaml/"
    "from_yaml reloads at every stage boundary. After every stage the names of all blocks present "
    "before must still be present and unique. distinct = hash of (graph, history); non-trivial = "
    "at least 3 names were handed out while at least one graph was registered"
)
ASSUMPTIONS = [
    "a name counts as 'present' if it is a key of any graph sharing the generator, the name of "
    "such a graph's region, or a control variable used by one of its blocks",
]
DECIDING_COUNTERS = ["M-names.handed_out", "M-names.graph_registered"]
SHARD_TIMEOUT = {"quick": 900, "thorough": 5400}


def plan(tier, seed):
    quick = tier == "quick"
    shards = []
    n_req = 400 if quick else 20000
    n_ns = 3000 if quick else 120000
    n_rl = 3000 if quick else 120000
    per = 250 if quick else 4000
    shards.append({"kind": "requests", "seed": seed, "count": n_req})
    for start in range(0, n_ns, per):
        shards.append({"kind": "namespace", "seed": seed, "start": start, "count": per})
    for start in range(0, n_rl, per):
        shards.append({"kind": "reload", "seed": seed, "start": start, "count": per})
    for start in range(0, n_ns // 3, per):
        shards.append({"kind": "faulted", "seed": seed, "start": start, "count": per})
    for start in range(0, n_ns // 3, per):
        shards.append({"kind": "caller_named", "seed": seed, "start": start, "count": per})
    for start in range(0, n_ns // 3, per):
        shards.append({"kind": "hand_built", "seed": seed, "start": start, "count": per})
    for s in shards:
        s["tier"] = tier
    return shards


KINDS = ["basic", "python_bytecode", "synth_head", "synth_tail", "synth_exit", "synth_asign",
         "synth_return", "synth_exit_latch", "synth_fill", "synth_exit_branch", "loop", "head",
         "branch", "tail", "meta", "control", "exit", "backedge", "x", "a_block", "b_region_1"]


def run_requests(rng, acc):
    from numba_scfg.core.datastructures.scfg import NameGenerator, SCFG
    from ..monitors import names as N

    ctx = core.set_ctx(core.Ctx(None))
    N.reset()
    gen = NameGenerator()
    scfg = SCFG({}, name_gen=gen)
    hist = []
    for _ in range(rng.randint(20, 200)):
        f = rng.choice(["new_block_name", "new_region_name", "new_var_name"])
        k = rng.choice(KINDS)
        name = getattr(gen, f)(k)
        hist.append([f, k, name])
        if rng.random() < 0.05:
            SCFG({}, name_gen=gen)  # sub-graph sharing the generator
    names = [h[2] for h in hist]
    if len(set(names)) != len(names):
        ctx.violation("C18", "history_contains_duplicate", sorted(n for n in set(names)
                                                                  if names.count(n) > 1)[:5])
    case = {"kind": "requests", "history": hist[:30], "n": len(hist)}
    acc.add_ctx(ctx, case, nontrivial_hash=core.sha(hist), sample=(acc.evaluations % 101 == 0))
    acc.counters["request_histories"] += 1


def names_of(scfg):
    return [k for k, b, sc, par, d in all_items(scfg)]


EXITLESS = [
    {"0": ("1",), "1": ("1",)},
    {"0": ("1",), "1": ("2",), "2": ("1",)},
    {"0": ("1", "2"), "1": ("2",), "2": ("1",)},
    {"0": ("1",), "1": ("2", "3"), "2": ("1",), "3": ("1",)},
]


def fault_prefix(case, ctx):
    """A stage fails on a first graph - refused by the library (a loop nothing
    leaves: StopIteration; two entry blocks: AssertionError) or aborted by an
    injected exception - and the graph of the case is then built on the SAME
    name generator, by the constructor or block by block."""
    from numba_scfg.core.datastructures.scfg import SCFG
    from numba_scfg.core.datastructures.basic_block import PythonBytecodeBlock
    from ..monitors import fault

    rng = random.Random(core.sha([case["g"], "c18fault"]))
    mode = case["fault"]
    if mode == "exitless":
        ga = rng.choice(EXITLESS)
    elif mode == "two_heads":
        ga = {"0": ("2",), "1": ("2",), "2": ("3", "4"), "3": (), "4": ("2",)}
    else:
        ga = graphs.make_case("loop", 0, rng.randrange(1000)) or {"0": ("1", "0"), "1": ()}
    a = drivers.make_scfg(ga, "basic")

    def stages():
        for nm in ("join_returns", "restructure_loop", "restructure_branch"):
            getattr(a, nm)()

    if mode == "injected":
        fault.inject_around(ctx, rng, stages, tries=1, cold_key="C18")
    else:
        try:
            stages()
            ctx.hit("c18.fault_graph_accepted")
        except Exception:
            ctx.hit("M-fault.natural_refusals")
    g = {k: tuple(v) for k, v in case["g"].items()}
    blocks = {k: PythonBytecodeBlock(name=k, _jump_targets=tuple(v), begin=2 * i, end=2 * i + 2)
              for i, (k, v) in enumerate(g.items())}
    if case.get("how") == "add_block":
        b = SCFG({}, name_gen=a.name_gen)
        for blk in blocks.values():
            b.add_block(blk)
    else:
        b = SCFG(blocks, name_gen=a.name_gen)
    ctx.hit("c18.graphs_built_on_generator_of_failed_graph")
    return b


def hand_built_region(case, ctx):
    """The caller assembles a hierarchy by hand: the case's graph is the body of
    a region block the caller names itself (a generated-looking region name at
    or ahead of the generator index); the sub-graph is created on the receiving
    graph's own generator, and the region is handed to the outer graph with add_block or the constructor."""
    from numba_scfg.core.datastructures.scfg import SCFG, NameGenerator
    from numba_scfg.core.datastructures.basic_block import BasicBlock, RegionBlock

    rng = random.Random(core.sha([case["g"], "hand_built"]))
    g = {k: tuple(v) for k, v in case["g"].items()}
    targeted = {t for v in g.values() for t in v}
    heads = [k for k in g if k not in targeted]
    exits = [k for k, v in g.items() if not v]
    if len(heads) != 1 or len(exits) != 1:
        return drivers.make_scfg(g, "bytecode")
    top = SCFG({})
    # (a sub-graph on a generator of its own is not a hierarchy the library can
    # keep fresh - the stages draw names for the inside from that generator,
    # which never heard of the outside - and was dropped from this class after
    # the first run on the unchanged tree)
    mode = "shared"
    gen = top.name_gen
    body = {k: BasicBlock(name=k, _jump_targets=tuple(v) if v else ("after_region",))
            for k, v in g.items()}
    sub = SCFG(body, name_gen=gen) if gen is not None else SCFG(body)
    kind = rng.choice(["loop", "head", "tail", "branch"])
    idx = top.name_gen.kinds.get(kind, 0) + rng.choice([0, 0, 1, 3])
    region = RegionBlock(name=f"{kind}_region_{idx}", _jump_targets=("after_region",), kind=kind,
                         parent_region=top.region, header=heads[0], subregion=sub, exiting=exits[0])
    object.__setattr__(sub, "region", region)
    if rng.random() < 0.6:
        top.add_block(BasicBlock(name="before_region", _jump_targets=(region.name,)))
        top.add_block(region)
        top.add_block(BasicBlock(name="after_region", _jump_targets=()))
    else:
        top = SCFG({"before_region": BasicBlock(name="before_region", _jump_targets=(region.name,)),
                    region.name: region,
                    "after_region": BasicBlock(name="after_region", _jump_targets=())},
                   name_gen=top.name_gen)
        object.__setattr__(region, "parent_region", top.region)
    ctx.hit("c18.hand_built_regions")
    ctx.hit("c18.hand_built_regions.generator_" + mode)
    return top


def caller_named_inserts(scfg, case, ctx):
    """The caller places blocks with the public insert_* methods under names of
    ITS OWN choosing that look like generated ones, at or ahead of the index
    the generator has reached (insert_SyntheticTail("synth_tail_block_0", ...)):
    every name requested afterwards must still be new."""
    from numba_scfg.core.datastructures.basic_block import (
        SyntheticFill, SyntheticTail, SyntheticExit, SyntheticReturn)

    rng = random.Random(core.sha([case["g"], "caller_named"]))
    kinds = [("synth_fill", SyntheticFill), ("synth_tail", SyntheticTail),
             ("synth_exit", SyntheticExit), ("synth_return", SyntheticReturn)]
    for _ in range(rng.randint(1, 3)):
        names = list(scfg.graph)
        p = rng.choice(names)
        succ = [t for t in scfg.graph[p].jump_targets if t in scfg.graph]
        kind, ty = rng.choice(kinds)
        idx = scfg.name_gen.kinds.get(kind, 0) + rng.choice([0, 0, 1, 2])
        new = f"{kind}_block_{idx}"
        if new in scfg.graph:
            continue
        try:
            if rng.random() < 0.3 and succ:
                new = f"synth_head_block_{scfg.name_gen.kinds.get('synth_head', 0) + rng.choice([0, 1])}"
                if new in scfg.graph:
                    continue
                scfg.insert_block_and_control_blocks(new, [p], succ[:1])
            else:
                scfg.insert_block(new, [p], succ[:1], ty)
            ctx.hit("c18.caller_named_inserts")
        except Exception:
            ctx.hit("c18.caller_named_insert_refused")


def staged(case, acc, reloads):
    """Run J,L,B on the graph; `reloads` maps a stage boundary (0..2) to 'dict'/'yaml'."""
    from numba_scfg.core.datastructures.scfg import SCFG
    from ..monitors import names as N, budget

    ctx = core.set_ctx(core.Ctx(None))
    attach.ACTIVE.clear()
    N.reset()
    g = {k: tuple(v) for k, v in case["g"].items()}
    if case.get("fault"):
        scfg = fault_prefix(case, ctx)
    elif case.get("caller_named"):
        scfg = drivers.make_scfg(g, "bytecode", case.get("how", "ctor"))
        caller_named_inserts(scfg, case, ctx)
    elif case.get("hand_built"):
        scfg = hand_built_region(case, ctx)
    else:
        scfg = drivers.make_scfg(g, "bytecode", case.get("how", "ctor"))
    before_all = set(g)
    phase = "stages"
    for i, st in enumerate("JLB"):
        ctx.data["c18_phase"] = phase
        before = names_of(scfg)
        n = len(before)
        budget.start(10 * (200 * n * n + 100_000))
        try:
            done = drivers.run_stages(scfg, st, ctx)
        except budget.BudgetExceeded:
            ctx.violation("C18", "stage_does_not_terminate", {"stage": st}, mech=phase)
            break
        finally:
            budget.stop()
        if not done:
            ctx.hit("c18.stage_failed." + phase)
            break
        after = names_of(scfg)
        if len(after) != len(set(after)):
            ctx.violation("C18", "duplicate_names_in_hierarchy",
                          sorted(n for n in set(after) if after.count(n) > 1)[:5], mech=phase)
        lost = set(before) - set(after)
        if lost:
            ctx.violation("C18", "block_disappeared", sorted(lost)[:5], mech=phase)
        how = reloads.get(i)
        if how:
            try:
                if how == "dict":
                    scfg, _ = SCFG.from_dict(scfg.to_dict())
                else:
                    scfg, _ = SCFG.from_yaml(scfg.to_yaml())
                phase = "after-reload"
                ctx.hit("c18.reloaded." + how)
            except Exception as e:
                ctx.hit("c18.reload_failed")
                break
    # finally ask the generator of the (possibly re-read) graph for one name of
    # every kind directly: each must be new for the whole hierarchy
    try:
        ctx.data["c18_phase"] = phase
        gen = scfg.name_gen
        for kind in ("synth_asign", "synth_head", "synth_exit", "synth_exit_latch",
                     "synth_exit_branch", "synth_tail", "synth_fill", "synth_return",
                     "python_bytecode", "basic"):
            gen.new_block_name(kind)
        for kind in ("loop", "head", "branch", "tail", "meta"):
            gen.new_region_name(kind)
        for kind in ("control", "exit", "backedge"):
            gen.new_var_name(kind)
        ctx.hit("c18.direct_requests_after_pipeline")
    except Exception:
        ctx.hit("c18.direct_requests_failed")
    nt = ctx.counters.get("M-names.handed_out", 0) >= 3
    acc.add_ctx(ctx, case, nontrivial_hash=core.sha([case["g"], sorted(reloads.items())]) if nt else None,
                sample=(acc.evaluations % 499 == 0))


def run_shard(spec):
    attach.install(("stage", "table", "names", "budget"))
    acc = ShardAcc(PROPERTY)
    k = spec["kind"]
    if k == "requests":
        for i in range(spec["count"]):
            run_requests(random.Random(f"c18r/{spec['seed']}/{i}"), acc)
    elif k == "namespace":
        for i in range(spec["start"], spec["start"] + spec["count"]):
            g = graphs.make_case("names_namespace", spec["seed"], i)
            if g is None:
                continue
            how = "add_block" if i % 3 == 2 else "ctor"
            staged({"kind": "namespace", "g": g, "reloads": {}, "how": how}, acc, {})
            acc.counters["namespace_graphs"] += 1
            acc.counters["namespace_graphs.built_by_" + how] += 1
    elif k == "hand_built":
        for i in range(spec["start"], spec["start"] + spec["count"]):
            g = graphs.make_case(["loop", "struct", "rand_small"][i % 3], spec["seed"], 450000 + i)
            if g is None:
                continue
            staged({"kind": "hand_built", "g": g, "reloads": {}, "hand_built": True}, acc, {})
            acc.counters["hand_built_histories"] += 1
    elif k == "caller_named":
        for i in range(spec["start"], spec["start"] + spec["count"]):
            g = graphs.make_case(["loop", "struct", "rand_small", "rand"][i % 4], spec["seed"], 400000 + i)
            if g is None:
                continue
            staged({"kind": "caller_named", "g": g, "reloads": {}, "caller_named": True}, acc, {})
            acc.counters["caller_named_histories"] += 1
    elif k == "faulted":
        for i in range(spec["start"], spec["start"] + spec["count"]):
            g = graphs.make_case("names_namespace" if i % 4 else "loop", spec["seed"], 300000 + i)
            if g is None:
                continue
            mode = ["exitless", "injected", "two_heads", "injected"][(i // 2) % 4]
            how = "add_block" if i % 2 else "ctor"
            staged({"kind": "faulted", "g": g, "reloads": {}, "how": how, "fault": mode}, acc, {})
            acc.counters["fault_histories"] += 1
            acc.counters["fault_histories." + mode] += 1
    elif k == "reload":
        for i in range(spec["start"], spec["start"] + spec["count"]):
            rng = random.Random(f"c18l/{spec['seed']}/{i}")
            cls = rng.choice(["rand_small", "rand", "struct", "loop"])
            g = graphs.make_case(cls, spec["seed"], i)
            if g is None:
                continue
            rl = {}
            for b in range(3):
                if rng.random() < 0.5:
                    rl[b] = rng.choice(["dict", "yaml"])
            if not rl:
                rl[rng.randrange(2)] = "dict"
            staged({"kind": "reload", "g": g, "reloads": {str(a): b for a, b in rl.items()}}, acc, rl)
            acc.counters["reload_histories"] += 1
    elif k == "single":
        c = spec["case"]
        if c["kind"] == "requests":
            acc.counters["replay_unsupported"] += 1
        else:
            staged(c, acc, {int(a): b for a, b in (c.get("reloads") or {}).items()})
    return acc.result()
