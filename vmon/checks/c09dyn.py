"""Dynamic part of C09: execute generated functions under instruction-level
tracing; every observed transfer of control must be an edge of the graph the
library built (trace conformance).  3.12: sys.monitoring INSTRUCTION events,
3.11: sys.settrace opcode events."""
import dis
import random
import sys

from .. import core
from ..workloads import corpus

TOOL = 4


class Fuel(Exception):
    pass

SNIPPETS = [
    "def f(a, b):\n    if a is None:\n        return 1\n    if b is not None:\n        return 2\n    return 3\n",
    "def f(a, b):\n    t = 0\n    for i in range(a):\n        if i == b:\n            break\n        t += i\n    else:\n        t -= 1\n    return t\n",
    "def f(a, b):\n    while a > 0:\n        a -= 1\n        if a == b:\n            continue\n        b += 1\n    return a and b or 7\n",
    "def f(a, b):\n    x = a if b else -a\n    return [i for i in range(a) if i != b] and x\n",
    "def f(a, b):\n    return 0 < a < b <= 10\n",
    "def f(a, b):\n    for i in range(a):\n        for j in range(b):\n            if i == j:\n                continue\n            if i + j > 3:\n                return i\n    return None\n",
    "def f(a, b):\n    r = 0\n    while True:\n        r += 1\n        if r > a:\n            break\n    return r or b\n",
    "def f(a, b):\n    return (a or b) and (b or a)\n",
]


def gen_source(rng):
    """Small random structured function (ints only, always terminates)."""
    lines = ["def f(a, b):", "    x = 0", "    n = 0"]

    def cond():
        return rng.choice(["a > x", "b == n", "x < 3", "a is None", "b is not None",
                           "a and b", "a or x", "not b", "0 < a < 5", "x != b"])

    def block(ind, depth, inloop):
        out = []
        for _ in range(rng.randint(1, 3)):
            c = rng.random()
            p = " " * ind
            if c < 0.3 or depth > 2:
                out.append(p + rng.choice(["x += 1", "x = x + b if b else x", "n += 2",
                                           "x = (a or 1) + (b and 2 or 0)"]))
            elif c < 0.55:
                out.append(p + f"if {cond()}:")
                out += block(ind + 4, depth + 1, inloop)
                if rng.random() < 0.5:
                    out.append(p + "else:")
                    out += block(ind + 4, depth + 1, inloop)
            elif c < 0.7:
                v = rng.choice("ij")
                out.append(p + f"for {v} in range({rng.randint(0, 3)}):")
                out += block(ind + 4, depth + 1, True)
                if rng.random() < 0.3:
                    out.append(p + "else:")
                    out += block(ind + 4, depth + 1, inloop)
            elif c < 0.82:
                w = f"w{depth}"
                out.append(p + f"{w} = 0")
                out.append(p + f"while {w} < {rng.randint(0, 3)}:")
                out.append(p + f"    {w} += 1")
                out += block(ind + 4, depth + 1, True)
            elif c < 0.9 and inloop:
                out.append(p + rng.choice(["break", "continue"]))
                break
            elif c < 0.96:
                out.append(p + f"return {rng.choice(['x', 'n', 'a', 'None', 'x or b', '1'])}")
                break
            else:
                out.append(p + "pass")
        return out

    lines += block(4, 0, False)
    lines.append("    return x")
    return "\n".join(lines) + "\n"


def trace_offsets(fn, args):
    """-> list of executed instruction offsets of fn's own code object."""
    code = fn.__code__
    seq = []
    if sys.version_info >= (3, 12):
        mon = sys.monitoring
        try:
            mon.use_tool_id(TOOL, "vmon-c09")
        except ValueError:
            pass

        def cb(c, off):
            if c is code:
                seq.append(off)
                if len(seq) > 200000:
                    raise Fuel()

        mon.register_callback(TOOL, mon.events.INSTRUCTION, cb)
        mon.set_local_events(TOOL, code, mon.events.INSTRUCTION)
        try:
            try:
                fn(*args)
            except Exception:
                pass
        finally:
            mon.set_local_events(TOOL, code, 0)
            mon.register_callback(TOOL, mon.events.INSTRUCTION, None)
    else:
        def tr(frame, ev, arg):
            if frame.f_code is code:
                frame.f_trace_opcodes = True
                if ev == "opcode":
                    seq.append(frame.f_lasti)
                    if len(seq) > 200000:
                        raise Fuel()
                return tr
            return None

        sys.settrace(tr)
        try:
            try:
                fn(*args)
            except Exception:
                pass
        finally:
            sys.settrace(None)
    return seq


def conformance(co, scfg, seq):
    """Every consecutive pair of executed offsets is sequential inside a block
    or (last of X, first of Y) with Y a successor of X."""
    from ..core import Viol, Inconclusive

    ins = list(dis.get_instructions(co))
    offs = [i.offset for i in ins]
    opn = {i.offset: i.opname for i in ins}
    nxt = {a: b for a, b in zip(offs, offs[1:])}
    blocks = sorted(scfg.graph.values(), key=lambda b: b.begin)
    blk_of = {}
    first_of = {}
    last_of = {}
    for b in blocks:
        li = [o for o in offs if b.begin <= o < b.end]
        for o in li:
            blk_of[o] = b.name
        if li:
            first_of[b.name] = li[0]
            last_of[b.name] = li[-1]
    # an EXTENDED_ARG prefix is part of the instruction it extends (3.11 reports
    # the prefixed instruction at the offset of its prefix)
    real = {}
    pending = []
    for o in offs:
        pending.append(o)
        if opn[o] != "EXTENDED_ARG":
            for p in pending:
                real[p] = o
            pending = []
    seq2 = []
    prev_was_prefix = False
    for raw in seq:
        o = real.get(raw, raw)
        if not (prev_was_prefix and seq2 and seq2[-1] == o):
            seq2.append(o)
        prev_was_prefix = opn.get(raw) == "EXTENDED_ARG"
    seq = seq2
    roffs = [o for o in offs if opn[o] != "EXTENDED_ARG"]
    nxt = {a: b for a, b in zip(roffs, roffs[1:])}
    for b in blocks:
        li = [o for o in roffs if b.begin <= o < b.end]
        if li:
            last_of[b.name] = li[-1]
    # a block may *begin* with an EXTENDED_ARG prefix: its first real instruction
    first_real = {b.name: real.get(first_of[b.name], first_of[b.name]) for b in blocks
                  if b.name in first_of}
    edges = set()
    for x, y in zip(seq, seq[1:]):
        if x not in blk_of or y not in blk_of:
            raise Viol("C09", "executed_offset_outside_blocks", (x, y))
        bx, by = blk_of[x], blk_of[y]
        if bx == by and nxt.get(x) == y:
            continue
        # END_FOR is transparent: 3.12 jumps over it on exhaustion
        yy = y
        if x != last_of[bx]:
            raise Viol("C09", "control_left_block_before_its_last_instruction",
                       (bx, x, opn[x], y))
        cands = [scfg.graph[t] for t in scfg.graph[bx]._jump_targets]
        ok = False
        for c in cands:
            f = first_real[c.name]
            if yy == f:
                ok = True
            elif opn.get(f) == "END_FOR" and nxt.get(f) == yy and opn[x] == "FOR_ITER":
                ok = True
        if not ok:
            # ground-truth self check: is the observed transfer possible at all per dis?
            want = corpus._succ_of([i for i in ins if i.offset == x][0], nxt)
            if yy not in want and not (opn[x] == "FOR_ITER"):
                raise Inconclusive("trace_contradicts_dis_ground_truth", (x, opn[x], y, want))
            raise Viol("C09", "executed_transfer_is_not_an_edge",
                       {"from": f"{x}:{opn[x]}", "to": y, "block": bx,
                        "successors": [first_real[c.name] for c in cands]})
        edges.add((bx, by))
    return edges


ARGS = [(0, 0), (1, 2), (3, 1), (None, 1), (2, None), (5, 5)]


def run_source(src, acc, ver, label):
    from numba_scfg.core.datastructures.byte_flow import ByteFlow
    from ..oracles.bytecode import check_byteflow
    from ..attach import exc_key
    from ..core import Viol, Inconclusive

    ctx = core.Ctx(label)
    case = {"kind": "dynsrc", "src": src, "python": ver}
    ns = {}
    exec(compile(src, "<c09dyn>", "exec"), ns)
    fn = ns["f"]
    co = fn.__code__
    if not corpus.eligible(co):
        acc.counters["dynamic_ineligible"] += 1
        return
    try:
        flow = ByteFlow.from_bytecode(fn)
    except Exception as e:
        key = exc_key(e)
        ctx.violation("C09", "from_bytecode_raised", key, mech=key["type"] + "@" + str(key["site"]))
        acc.add_ctx(ctx, case)
        return
    ctx.hit("oracle.C09.static")
    try:
        check_byteflow(co, flow.scfg)
    except Viol as v:
        ctx.viol(v)
        acc.add_ctx(ctx, case)
        return
    total_edges = sum(len(b._jump_targets) for b in flow.scfg.graph.values())
    exercised = set()
    for args in ARGS:
        seq = trace_offsets(fn, args)
        ctx.hit("oracle.C09.trace")
        acc.counters["instructions_traced"] += len(seq)
        try:
            exercised |= conformance(co, flow.scfg, seq)
        except Viol as v:
            ctx.viol(v)
            break
        except Inconclusive as i:
            ctx.inconc(i.reason, i.detail)
            break
    acc.counters["dynamic_edges_total"] += total_edges
    acc.counters["dynamic_edges_exercised"] += len(exercised)
    acc.add_ctx(ctx, case, nontrivial_hash=core.sha([src, ver]) if total_edges > 1 else None,
                sample=(acc.evaluations % 199 == 0))


def run(spec, acc, ver):
    for i, s in enumerate(SNIPPETS):
        run_source(s, acc, ver, f"snippet{i}")
    for i in range(spec["count"]):
        rng = random.Random(f"c09dyn/{spec['seed']}/{i}")
        run_source(gen_source(rng), acc, ver, f"gen{i}")


def run_single(case, acc, ver):
    run_source(case["src"], acc, ver, "replay")
