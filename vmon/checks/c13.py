"""C13 Graph queries return what their definitions prescribe (DESIGN 10/C13).

Two workloads: (1) direct calls on ALL small digraphs (exhaustive), (2) the
M-query contracts on every call the restructuring pipeline makes on the graph
classes of C01 (sub-graphs with arcs leaving the graph, graphs with regions).
"""
import itertools
import random
import sys
import time

from .. import core, attach, drivers
from ..workloads import graphs
from .base import ShardAcc
from .graphbase import GraphCheck, GEN_CLASSES

PROPERTY = "C13"
LEVEL = "exploration"
EXHAUSTIVE = False
RULE = (
    "direct: every digraph on n nodes 'a0'.. plus one external name, ordered target tuples with "
    "duplicates and self loops (quick: n<=3 out-degree<=2; thorough: n<=3 out-degree<=3 and n=4 "
    "out-degree<=2, plus 50k random graphs of 5-12 nodes); on each graph compute_scc, find_head, "
    "is_reachable_dfs (all ordered pairs incl. the external name), find_headers_and_entries and "
    "find_exiting_and_exits (all non-empty subsets for n<=4, random beyond), _doms/_post_doms/"
    "_imm_doms are called under the M-query contracts (brute-force references), then one block is "
    "removed and re-added with other targets through the public primitives, then one arc is "
    "declared a back edge and un-declared again, and the queries are asked again on the same "
    "object after each edit. in-pipeline: the "
    "same contracts on every query call made while restructuring the graph classes of C01. "
    "distinct = canonical hash of the graph; non-trivial = the graph has at least one edge and "
    "at least one contract compared a non-empty answer"
)
ASSUMPTIONS = [
    "brute-force references in vmon/oracles/queries.py implement the set/path definitions",
    "find_head on a graph with != 1 candidates is a precondition failure (must raise), "
    "find_headers_and_entries falls back to the graph head exactly as documented",
]
DECIDING_COUNTERS = ["M-query.compute_scc", "M-query.is_reachable_dfs", "M-query._doms",
                     "M-query.find_exiting_and_exits", "M-query.find_headers_and_entries"]
SHARD_TIMEOUT = {"quick": 900, "thorough": 7200}

def _query_levels(check, case, scfg, ctx, done):
    """After the stages: every query asked directly on the graph of every
    region at every depth (sub-graphs whose edges leave the graph, whose head
    is entered from two or more levels further out), under the contracts."""
    import random as _r
    from numba_scfg.core import transformations as T
    from ..hier import levels

    if not done:
        return
    rng = _r.Random(core.sha([case.get("g") or case.get("origin"), "levels"]))
    n = 0
    for reg, sc in levels(scfg):
        if reg is None or len(sc.graph) > 40:
            continue
        n += 1
        if n > 60:
            break
        names = list(sc.graph)
        sc.compute_scc()
        try:
            head = sc.find_head()
        except AssertionError:
            head = None
        subsets = [set(names), {names[0]}, {names[-1]}]
        if head is not None:
            subsets.append({head})
        for _ in range(3):
            subsets.append(set(rng.sample(names, rng.randint(1, len(names)))))
        for sub in subsets:
            try:
                sc.find_headers_and_entries(set(sub))
            except AssertionError:
                pass
            sc.find_exiting_and_exits(set(sub))
        for a in names[:4]:
            for b in names[:4]:
                sc.is_reachable_dfs(a, b)
        for f in (T._doms, T._post_doms):
            try:
                T._imm_doms(f(sc))
            except (RuntimeError, ValueError):
                pass
        ctx.hit("direct.region_graphs_queried")
        ctx.hit("direct.region_graphs_queried.depth_%d" % min(_depth(reg), 6))


def _depth(reg):
    d = 0
    while reg is not None and getattr(reg, "kind", "meta") != "meta" and d < 50:
        d += 1
        reg = reg.parent_region
    return d


_pipeline = GraphCheck(
    "C13", oracles=set(), rule="", nontrivial=lambda f, c, t: f["regions"] > 0,
    deciding=[], profile=("stage", "query"), with_real=True, per_case=_query_levels,
    classes=[(c, max(50, q // 4), max(500, t // 10), p) for c, q, t, p in GEN_CLASSES],
)


def _opts(names, ext, maxdeg):
    tg = names + [ext]
    o = [()]
    for d in range(1, maxdeg + 1):
        o += list(itertools.product(tg, repeat=d))
    return o


def plan(tier, seed):
    shards = []
    quick = tier == "quick"
    for n in (1, 2, 3):
        deg = 2 if quick else 3
        nsh = 1 if n < 3 else (16 if quick else 64)
        for s in range(nsh):
            shards.append({"kind": "digraphs", "n": n, "deg": deg, "shard": s, "nshards": nsh})
    if not quick:
        for s in range(96):
            shards.append({"kind": "digraphs", "n": 4, "deg": 2, "shard": s, "nshards": 96})
        for s in range(50):
            shards.append({"kind": "randdigraphs", "seed": seed, "index": s, "count": 1000})
    else:
        for s in range(8):
            shards.append({"kind": "randdigraphs", "seed": seed, "index": s, "count": 250})
    for sp in _pipeline.plan(tier, seed):
        if sp["kind"] == "exh" and sp["n"] == 5 and quick:
            sp["stride"] = 40
            sp["offset"] = seed % 40
        shards.append(sp)
    shards.append({"kind": "gtests"})
    for sp in shards:
        sp["tier"] = tier
    return shards


def _make(gd):
    from numba_scfg.core.datastructures.scfg import SCFG
    from numba_scfg.core.datastructures.basic_block import BasicBlock

    return SCFG({k: BasicBlock(name=k, _jump_targets=tuple(v)) for k, v in gd.items()})


def exercise(gd, acc, rng=None, all_subsets=True):
    """Call every query on one graph; the M-query contracts decide."""
    from numba_scfg.core import transformations as T

    ctx = core.set_ctx(core.Ctx(None))
    try:
        _exercise(gd, acc, rng, all_subsets, ctx)
    except Exception as e:
        # the monitor has charged the query that raised; the history ends here
        ctx.hit("direct.history_ended_by_exception." + type(e).__name__)
        if not ctx.findings:
            ctx.violation("C13", "query_history_raised:" + type(e).__name__, attach.exc_key(e))
        acc.add_ctx(ctx, {"kind": "digraph", "g": gd}, nontrivial_hash=core.graph_hash(gd))
        acc.counters["direct_graphs"] += 1


def _exercise(gd, acc, rng, all_subsets, ctx):
    from numba_scfg.core import transformations as T

    scfg = _make(gd)
    names = list(gd)
    ext = sorted({t for v in gd.values() for t in v} - set(names))
    for fn in (scfg.compute_scc,):
        fn()
    try:
        scfg.find_head()
    except AssertionError:
        ctx.hit("direct.find_head_precondition")
    for a in names:
        for b in names + ext + ["<nowhere>"]:
            scfg.is_reachable_dfs(a, b)
    if all_subsets:
        subsets = [set(c) for r in range(1, len(names) + 1)
                   for c in itertools.combinations(names, r)]
    else:
        subsets = []
        for _ in range(12):
            k = rng.randint(1, len(names))
            subsets.append(set(rng.sample(names, k)))
    for sub in subsets:
        try:
            scfg.find_headers_and_entries(set(sub))
        except AssertionError:
            ctx.hit("direct.headers_fallback_precondition")
        scfg.find_exiting_and_exits(set(sub))
    for f in (T._doms, T._post_doms):
        try:
            d = f(scfg)
        except RuntimeError:
            ctx.hit("direct.no_entry_points")
            continue
        try:
            T._imm_doms(d)
        except ValueError:
            ctx.hit("direct.imm_doms_not_a_tree_raised")
    # history on the same object: edit the graph through the public primitives and
    # ask again (an answer remembered from before the edit would be stale)
    import random as _r
    from numba_scfg.core.datastructures.basic_block import BasicBlock

    hr = rng or _r.Random(core.graph_hash(gd))
    if len(names) >= 2:
        victim = hr.choice(names)
        scfg.remove_blocks({victim})
        left = [n for n in names if n != victim]
        for a in left:
            for b in names + ext:
                scfg.is_reachable_dfs(a, b)
        scfg.compute_scc()
        scfg.find_exiting_and_exits(set(left[:1]))
        try:
            scfg.find_headers_and_entries(set(left[:1]))
        except AssertionError:
            pass
        scfg.add_block(BasicBlock(name=victim, _jump_targets=tuple(hr.sample(names, 1))))
        for a in names:
            for b in names:
                scfg.is_reachable_dfs(a, b)
        scfg.compute_scc()
        try:
            scfg.find_head()
        except AssertionError:
            pass
        for f in (T._doms, T._post_doms):
            try:
                f(scfg)
            except RuntimeError:
                pass
        ctx.hit("direct.requery_after_edit")
    # fault histories on the same object.  (natural) remove_blocks is handed an
    # existing and an unknown name: it deletes the first and then raises
    # KeyError; the block is put back and everything is asked again.
    # (injected) the queries are pure: one that is aborted by an exception at
    # a random library call leaves the graph as it was, and the same query
    # asked again must be answered from the graph as it is now.
    if len(names) >= 2:
        victim = hr.choice(names)
        vb = scfg.graph[victim]
        # ask first: what a query remembers is what a refusal can leave stale
        for sub in [set(names), {n for n in names if n != victim}]:
            try:
                scfg.find_headers_and_entries(set(sub))
            except AssertionError:
                pass
            scfg.find_exiting_and_exits(set(sub))
        scfg.compute_scc()
        for f in (T._doms, T._post_doms):
            try:
                f(scfg)
            except RuntimeError:
                pass
        try:
            scfg.remove_blocks([victim, "<no such block>"])
            ctx.hit("direct.unknown_name_removed")
        except KeyError:
            ctx.hit("direct.refused_remove_blocks")
        left = [n for n in names if n in scfg.graph]
        for sub in ([set(left[:1]), set(left)] if left else []):
            try:
                scfg.find_headers_and_entries(set(sub))
            except AssertionError:
                pass
            scfg.find_exiting_and_exits(set(sub))
        scfg.compute_scc()
        for a in left:
            for b in names:
                scfg.is_reachable_dfs(a, b)
        if victim not in scfg.graph:
            scfg.add_block(vb)
        for sub in [{victim}, set(names)]:
            try:
                scfg.find_headers_and_entries(set(sub))
            except AssertionError:
                pass
            scfg.find_exiting_and_exits(set(sub))
        ctx.hit("direct.requery_after_refused_edit")
    if hasattr(sys, "monitoring") and names and hr.random() < 0.25:
        from ..monitors import fault

        def queries():
            scfg.compute_scc()
            try:
                scfg.find_head()
            except AssertionError:
                pass
            for a in names[:3]:
                for b in names[:3]:
                    scfg.is_reachable_dfs(a, b)
            sub = set(names[:max(1, len(names) // 2)])
            try:
                scfg.find_headers_and_entries(set(sub))
            except AssertionError:
                pass
            scfg.find_exiting_and_exits(set(sub))
            for f in (T._doms, T._post_doms):
                try:
                    T._imm_doms(f(scfg))
                except (RuntimeError, ValueError):
                    pass

        saved = core.CTX
        fctx = core.set_ctx(core.Ctx(None))  # contracts of the aborted round are not charged
        fault.inject_around(fctx, hr, queries, tries=2)
        core.set_ctx(saved)
        ctx.counters.update(fctx.counters)
        queries()
        ctx.hit("direct.requery_after_injected_fault")
    # a second kind of edit: one arc is declared a back edge (it then no longer
    # counts as a jump target for any query), queried, and un-declared again
    arcs = [(a, t) for a in names for t in scfg.graph[a].jump_targets if t in scfg.graph]
    if arcs:
        a, t = hr.choice(arcs)
        if not scfg.graph[a].backedges:
            scfg.add_block(scfg.graph.pop(a).declare_backedge(t))
            for phase in (0, 1):
                for f in (T._doms, T._post_doms):
                    try:
                        f(scfg)
                    except RuntimeError:
                        pass
                scfg.compute_scc()
                for b in names:
                    scfg.is_reachable_dfs(a, b)
                    scfg.is_reachable_dfs(b, t)
                scfg.find_exiting_and_exits({a})
                try:
                    scfg.find_headers_and_entries({t})
                except AssertionError:
                    pass
                try:
                    scfg.find_head()
                except AssertionError:
                    pass
                if phase == 0:
                    scfg.add_block(scfg.graph.pop(a).replace_backedges(()))
            ctx.hit("direct.requery_after_backedge_declaration")
    nontrivial = any(gd.values()) and sum(
        v for k, v in ctx.counters.items() if k.startswith("M-query.")) > 0
    case = {"kind": "digraph", "g": gd}
    acc.add_ctx(ctx, case, nontrivial_hash=core.graph_hash(gd) if nontrivial else None,
                sample=(acc.evaluations % 5003 == 0))
    acc.counters["direct_graphs"] += 1


def run_shard(spec):
    k = spec["kind"]
    if k == "gtests":
        from .graphbase import run_gtests_shard
        return run_gtests_shard(PROPERTY)
    if k not in ("digraphs", "randdigraphs", "single") or (
            k == "single" and spec["case"].get("kind") != "digraph"):
        r = _pipeline.run_shard(spec)
        return r
    attach.install(("query",))
    acc = ShardAcc(PROPERTY)
    if k == "single":
        exercise({a: tuple(b) for a, b in spec["case"]["g"].items()}, acc)
        return acc.result()
    if k == "digraphs":
        n, deg = spec["n"], spec["deg"]
        names = [f"a{i}" for i in range(n)]
        opts = _opts(names, "X", deg)
        for idx, combo in enumerate(itertools.product(opts, repeat=n)):
            if idx % spec["nshards"] != spec["shard"]:
                continue
            exercise(dict(zip(names, combo)), acc)
        acc.counters[f"exhaustive.n{n}.deg{deg}"] += acc.evaluations
    else:
        rng = random.Random(f"c13/{spec['seed']}/{spec['index']}")
        for _ in range(spec["count"]):
            n = rng.randint(5, 12)
            names = [f"a{i}" for i in range(n)]
            gd = {}
            for nm in names:
                d = rng.choice([0, 1, 1, 2, 2, 3])
                gd[nm] = tuple(rng.choice(names + ["X", "Y"]) for _ in range(d))
            exercise(gd, acc, rng, all_subsets=False)
    return acc.result()


def coverage_extra(m, tier):
    return {"exhaustive_note": "counters exhaustive.n<k>.deg<d> give the number of digraphs of the "
                               "completely enumerated spaces",
            "exhaustive_subcounts": {k: v for k, v in m["counters"].items()
                                     if k.startswith("exhaustive.")}}
