"""C02 Restructuring accepts every closed CFG (DESIGN section 10, C02)."""
from .graphbase import GraphCheck


def nontrivial(f, ctx, tr):
    # restructuring had something to do: a region was built or a block inserted,
    # or the pipeline died trying
    return f["regions"] > 0 or f["synth"] > 0 or f["stages_done"] < 3


CHECK = GraphCheck(
    "C02",
    oracles={"C02"},
    exh_quick_full=True,
    rule=(
        "cases: ALL closed CFGs with n<=5 nodes (89 656, both tiers), sampled n=6,7 (thorough), "
        "seeded generated classes, stdlib bytecode/source CFGs; each goes through join_returns, "
        "restructure_loop, restructure_branch under the stage monitor, which records any exception "
        "escaping a stage and enforces a Python-call budget (200 n^2 + 10^5) as bounded progress. "
        "distinct = canonical hash of the input graph; non-trivial = restructuring created a region "
        "or inserted a synthetic block (or failed)"
    ),
    nontrivial=nontrivial,
    deciding=["M-stage.join_returns", "M-stage.restructure_loop", "M-stage.restructure_branch"],
    profile=("stage", "table", "step", "budget"),
)
