"""C02 Restructuring accepts every closed CFG (DESIGN section 10, C02)."""
from .graphbase import GraphCheck


def nontrivial(f, ctx, tr):
    # restructuring had something to do: a region was built or a block inserted,
    # or the pipeline died trying
    return f["regions"] > 0 or f["synth"] > 0 or f["stages_done"] < 3


CHECK = GraphCheck(
    "C02",
    oracles={"C02"},
    exh_quick_full=True,
    rule=(
        "cases: ALL closed CFGs with n<=5 nodes (89 656, both tiers), sampled n=6,7 (thorough), "
        "seeded generated classes, stdlib bytecode/source CFGs; each goes through join_returns, "
        "restructure_loop, restructure_branch under the stage monitor, which records any exception "
        "escaping a stage and enforces a Python-call budget (200 n^2 + 10^5) as bounded progress. "
        "distinct = canonical hash of the input graph; non-trivial = restructuring created a region "
        "or inserted a synthetic block (or failed)"
    ),
    nontrivial=nontrivial,
    deciding=["M-stage.join_returns", "M-stage.restructure_loop", "M-stage.restructure_branch"],
    profile=("stage", "table", "step", "budget"),
)


# ---------------------------------------------------------------- long graphs
# "any size": a handful of closed CFGs with 1000-1500 blocks on one level (a
# branch followed by a long chain, a long arm, a loop in front of a long tail,
# a ladder of if/else diamonds), restructured under the interpreter's DEFAULT
# recursion limit (the workers otherwise raise it for the oracles' sake, which
# would hide a library routine that recurses once per block of a path).
import random as _random
import sys as _sys

from .. import core as _core, attach as _attach, drivers as _drivers
from ..workloads import graphs as _graphs
from .base import ShardAcc as _ShardAcc

_plan0 = CHECK.plan
_run0 = CHECK.run_shard
SHAPES = ["long_tail", "long_arm", "loop_then_tail", "two_long_arms", "diamond_ladder", "long_loop_body"]


def long_graph(shape, n):
    g = {}

    def chain(prefix, k, then):
        for i in range(k):
            g[f"{prefix}{i}"] = (f"{prefix}{i + 1}",) if i + 1 < k else then
        return f"{prefix}0"

    if shape == "long_tail":
        g["e"] = ("a", "b")
        g["a"] = ("j",)
        g["b"] = ("j",)
        g["j"] = (chain("t", n, ()),)
    elif shape == "long_arm":
        g["e"] = (chain("a", n, ("j",)), "b")
        g["b"] = ("j",)
        g["j"] = ()
    elif shape == "two_long_arms":
        g["e"] = (chain("a", n // 2, ("j",)), chain("b", n // 2, ("j",)))
        g["j"] = ()
    elif shape == "loop_then_tail":
        g["e"] = ("h",)
        g["h"] = ("w", "x")
        g["w"] = ("h",)
        g["x"] = ("p", "q")
        g["p"] = ("j",)
        g["q"] = ("j",)
        g["j"] = (chain("t", n, ()),)
    elif shape == "long_loop_body":
        g["e"] = ("h",)
        g["h"] = (chain("w", n, ("h",)), "x")
        g["x"] = ()
    else:  # diamond_ladder: k diamonds in a row (4 blocks each)
        k = min(n // 4, 40)  # restructuring cost grows steeply with consecutive diamonds
        for i in range(k):
            nxt = f"d{i + 1}" if i + 1 < k else "end"
            g[f"d{i}"] = (f"l{i}", f"r{i}")
            g[f"l{i}"] = (nxt,)
            g[f"r{i}"] = (nxt,)
        g["end"] = (chain("t", n - 3 * k, ()),)
    return g


def _plan(tier, seed):
    shards = _plan0(tier, seed)
    sizes = [1100] if tier == "quick" else [1100, 1500, 2500]
    for shape in SHAPES:
        for n in sizes:
            shards.append({"kind": "long", "shape": shape, "n": n + seed % 7, "tier": tier})
    return shards


def _run(spec):
    if spec["kind"] != "long" and not (spec["kind"] == "single" and spec["case"].get("kind") == "long"):
        return _run0(spec)
    if spec["kind"] == "single":
        spec = dict(spec, shape=spec["case"]["shape"], n=spec["case"]["n"])
    _attach.install(("stage", "table", "budget"))
    from ..monitors import budget

    acc = _ShardAcc("C02")
    g = long_graph(spec["shape"], spec["n"])
    _graphs.assert_closed(g)
    ctx = _core.set_ctx(_core.Ctx(None))
    _attach.ACTIVE.clear()
    _attach.ACTIVE.update({"C02"})
    scfg = _drivers.make_scfg(g, "basic")
    n = len(g)
    old = _sys.getrecursionlimit()
    _sys.setrecursionlimit(1000)
    budget.start(200 * n * n + 100_000)
    try:
        done = _drivers.run_stages(scfg, "JLB", ctx)
    except budget.BudgetExceeded:
        done = []
        ctx.violation("C02", "call_budget_exceeded", {"n": n, "shape": spec["shape"]})
    finally:
        used = budget.stop()
        _sys.setrecursionlimit(old)
    acc.maximum("python_calls_long_graph", used)
    acc.counters["class.long_%s" % spec["shape"]] += 1
    acc.counters["long_graphs.stages_completed_%d" % len(done)] += 1
    case = {"kind": "long", "shape": spec["shape"], "n": spec["n"]}
    acc.add_ctx(ctx, case, nontrivial_hash=_core.sha([spec["shape"], spec["n"]]))
    return acc.result()


CHECK.plan = _plan
CHECK.run_shard = _run
