"""Single-operation fault histories (M-fault), shared by C15, C16, C17.

Whole-case fault histories (graphbase.fault_prefix) abort a run of the complete
case; state that the *next successful* operation of the same kind repairs is
invisible to them, because a case starts with the flat graph.  Here one
operation (render / write+read / iterate) on a restructured graph A is aborted
by an injected exception - or refused by the library itself (`natural`) - and
the very next library call is the same operation on another restructured
graph B, under the property's oracle."""
import random

from .. import core, attach, drivers
from ..attach import run_oracle
from ..monitors import fault
from ..workloads import graphs
from .base import ShardAcc


def plan(tier, seed, quick_total=400, thorough_total=12000):
    total = quick_total if tier == "quick" else thorough_total
    per = 100 if tier == "quick" else 1000
    return [{"kind": "opfaults", "seed": seed, "start": s, "count": min(per, total - s), "tier": tier}
            for s in range(0, total, per)]


def restructured(seed, i, tag, payload="basic"):
    """a graph of a random class taken through a random stage prefix (no oracles)"""
    rng = random.Random(f"opf/{tag}/{seed}/{i}")
    cls = rng.choice(["loop", "loop", "struct", "rand_small", "rand", "names_namespace"])
    g = graphs.make_case(cls, seed, 700000 + i)
    if g is None:
        return None, None
    attach.ACTIVE.clear()
    core.set_ctx(core.Ctx(None))
    scfg = drivers.make_scfg(g, payload)
    stages = rng.choice(["JLB", "JLB", "JL", "J"])
    done = drivers.run_stages(scfg, stages)
    if len(done) != len(stages):
        return None, None
    return g, scfg


def run_shard(spec, prop, profile, victim_of, oracle, natural_of=None, payload="basic"):
    """victim_of(scfg) -> callable performing the operation once;
    oracle(scfg) -> stats or raises Viol; natural_of(scfg) -> list of callables
    the library is expected to refuse (outcome ignored)."""
    attach.install(profile)
    fault.install()
    acc = ShardAcc(prop)
    for i in range(spec["start"], spec["start"] + spec["count"]):
        if spec.get("kind") == "single":
            i = spec["case"]["index"]
            spec = dict(spec, seed=spec["case"]["seed"])
        ga, a = restructured(spec["seed"], i, "A", payload)
        gb, b = restructured(spec["seed"], i, "B", payload)
        if a is None or b is None:
            acc.counters["opfaults.skipped"] += 1
            if spec.get("kind") == "single":
                break
            continue
        rng = random.Random(f"opf/k/{spec['seed']}/{i}")
        ctx = core.set_ctx(core.Ctx(None))
        attach.ACTIVE.clear()
        mode = "injected"
        if natural_of is not None and rng.random() < 0.4:
            mode = "natural"
            refused = 0
            for op in natural_of(a):
                try:
                    op()
                except Exception:
                    refused += 1
            ctx.hit("M-fault.natural_refusals", refused)
            if not refused:
                mode = "injected"
        if mode == "injected":
            fault.inject_around(ctx, rng, victim_of(a), tries=1)
        ctx.hit("opfaults." + mode)
        attach.ACTIVE.update({prop})
        run_oracle(ctx, f"{prop}.after_aborted_operation", oracle, b)
        case = {"kind": "opfault", "seed": spec["seed"], "index": i, "mode": mode}
        acc.add_ctx(ctx, case, nontrivial_hash=core.sha([ga, gb]), props={prop},
                    sample=(acc.evaluations % 97 == 0))
        acc.counters["class.opfault_history"] += 1
        if spec.get("kind") == "single":
            break
    return acc.result()
