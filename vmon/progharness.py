"""Executing generated programs: external functions with a call log, decision
tapes, fuel; depth-first enumeration of the tapes a reference run consumes."""
import copy
import sys


class TapeEnd(Exception):
    pass


class Fuel(BaseException):
    pass


class Env:
    def __init__(self, tape, maxlen, calls=2000):
        self.tape = list(tape)
        self.pos = 0
        self.maxlen = maxlen
        self.log = []
        self.taken = []
        self.calls = calls
        self.empty_iter = False

    def tick(self):
        self.calls -= 1
        if self.calls < 0:
            raise Fuel()

    def d(self, k):
        self.tick()
        if self.pos >= self.maxlen:
            self.log.append(("d", k, "END"))
            raise TapeEnd()
        v = self.tape[self.pos] if self.pos < len(self.tape) else 0
        self.pos += 1
        self.taken.append(v)
        self.log.append(("d", k, v))
        return bool(v)

    def ext(self, k, v=None, *more):
        self.tick()
        self.log.append(("ext", k, repr(v)) if not more else ("ext", k, repr((v,) + more)))
        return v

    def it(self, k, n):
        self.tick()
        self.log.append(("it", k, repr(n)))
        if isinstance(n, bool) or not isinstance(n, int):
            try:
                self.empty_iter = self.empty_iter or len(n) == 0
            except Exception:
                pass
            return n
        if n <= 0:
            self.empty_iter = True
        return list(range(n))

    def globals(self):
        return {"d": self.d, "ext": self.ext, "it": self.it, "__builtins__": __builtins__}


MAX_LINES = 20000


def run_callable(make, args, tape, maxlen, merge_name_errors=False):
    """-> (outcome, log, taken).  outcome: ('ret', repr) | ('exc', type name) |
    ('fuel',)"""
    env = Env(tape, maxlen)
    cnt = [0]

    def tr(frame, ev, arg):
        if ev == "line":
            cnt[0] += 1
            if cnt[0] > MAX_LINES:
                raise Fuel()
        return tr

    try:
        fn = make(env.globals())
        # every run gets its own copy of the arguments: a program may mutate
        # a list it was handed (y = b; y += a)
        args = copy.deepcopy(args)
        sys.settrace(tr)
        try:
            v = fn(*args)
        finally:
            sys.settrace(None)
        r = ("ret", repr(v))
    except TapeEnd:
        r = ("exc", "TapeEnd")
    except Fuel:
        r = ("fuel",)
    except RecursionError:
        r = ("fuel",)
    except Exception as e:
        t = type(e).__name__
        if merge_name_errors and t == "UnboundLocalError":
            t = "NameError"
        r = ("exc", t)
    return r, env.log, env.taken, env.empty_iter


def explore(makers, args, maxlen=6, maxruns=200, merge_name_errors=False):
    """makers: label -> make(globals)->callable.  Enumerates decision tapes
    driven by the FIRST maker (the reference).  yields (tape, {label: result})."""
    stack = [[]]
    runs = 0
    ref = next(iter(makers))
    while stack and runs < maxruns:
        pre = stack.pop()
        res = {}
        for lab, mk in makers.items():
            res[lab] = run_callable(mk, args, pre, maxlen, merge_name_errors)
        runs += 1
        taken = res[ref][2]
        for i in range(len(pre), min(len(taken), maxlen)):
            alt = taken[:i] + [1 - taken[i]]
            stack.append(alt)
        yield pre, res


def make_from_src(src, name, filename="<gen>"):
    code = compile(src, filename, "exec")

    def mk(g):
        g = dict(g)
        exec(code, g)
        return g[name]

    return mk
