"""pytest plugin: run the repository's own tests under the monitors (G-tests).

    cd /repo && NUMBA_SCFG_VERIF=1 PYTHONPATH=/verif /venv/bin/python -m pytest \
        -p vmon.pytest_plugin -q -p no:cacheprovider

Passive: the monitors record, the tests decide nothing differently.  What the
monitors saw is written to $VMON_GTESTS_OUT (default /verif/out/gtests.json).
Graphs built by the tests are often not closed CFGs; stage oracles that need a
closed input are skipped for those (the domain rule of DESIGN section 9), the
contracts of M-query / M-edit / M-table / M-names / M-iter apply to every call.
"""
import collections
import json
import os

from . import core, attach

_RESULTS = []


def pytest_configure(config):
    core.setup_env()
    attach.install(("stage", "table", "step", "query", "edit", "iter", "names"))
    attach.ACTIVE.clear()
    attach.ACTIVE.update({"C01", "C03", "C04", "C05", "C06", "C16"})
    attach.OPTS["cap"] = 200_000


def pytest_runtest_setup(item):
    core.set_ctx(core.Ctx(item.nodeid))
    attach.ACTIVE.clear()
    attach.ACTIVE.update({"C01", "C03", "C04", "C05", "C06", "C16"})
    try:
        from .monitors import names
        names.reset()
    except Exception:
        pass


def pytest_runtest_teardown(item, nextitem):
    ctx = core.get_ctx()
    _RESULTS.append({
        "test": item.nodeid,
        "findings": [{k: f[k] for k in ("prop", "kind", "stage", "detail")} for f in ctx.findings],
        "inconclusive": ctx.inconclusive[:3],
        "counters": dict(ctx.counters),
    })


def pytest_sessionfinish(session, exitstatus):
    out = os.environ.get("VMON_GTESTS_OUT", os.path.join(core.VERIF_DIR, "out", "gtests.json"))
    os.makedirs(os.path.dirname(out), exist_ok=True)
    tot = collections.Counter()
    for r in _RESULTS:
        tot.update(r["counters"])
    with open(out, "w") as f:
        json.dump({"tests": len(_RESULTS), "exitstatus": int(exitstatus),
                   "tests_with_findings": [r for r in _RESULTS if r["findings"]],
                   "tests_inconclusive": [r["test"] for r in _RESULTS if r["inconclusive"]],
                   "monitor_hits": dict(tot)}, f, indent=1, default=repr)
