#!/usr/bin/env python3
"""Evaluate a seeded change (patch.diff + demo.py) against the checks.

usage: tools/seedrun.py <dir with patch.diff and demo.py> [--checks C01,C02] [--tier quick]
                        [--skip-confirm]

Never touches /repo: a scratch copy is made under /root/scratch/seedrun, the
patch applied there, and the checks run against it through VMON_REPO.  The copy
is removed afterwards.  Confirms first that (1) the demo passes on the clean
copy, (2) fails with the change, (3) the repository tests still pass with it.
"""
import argparse
import json
import os
import shutil
import subprocess
import sys
import time

HERE = os.path.dirname(os.path.dirname(os.path.abspath(__file__)))
SCRATCH = "/root/scratch/seedrun"
ALL = ["C%02d" % i for i in range(1, 19)]


def sh(cmd, **kw):
    return subprocess.run(cmd, shell=True, capture_output=True, text=True, **kw)


def main():
    ap = argparse.ArgumentParser()
    ap.add_argument("dir")
    ap.add_argument("--checks", default=",".join(ALL))
    ap.add_argument("--tier", default="quick")
    ap.add_argument("--skip-confirm", action="store_true")
    ap.add_argument("--seed", default="0")
    a = ap.parse_args()
    d = os.path.abspath(a.dir)
    patch = os.path.join(d, "patch.diff")
    demo = os.path.join(d, "demo.py")
    tag = os.path.basename(os.path.dirname(d)) + "_" + os.path.basename(d) if os.path.basename(d) in ("A", "B") else os.path.basename(d)
    work = os.path.join(SCRATCH, tag)
    shutil.rmtree(work, ignore_errors=True)
    os.makedirs(SCRATCH, exist_ok=True)
    shutil.copytree("/repo", work, ignore=shutil.ignore_patterns(".git", "__pycache__", "*.egg-info"))
    res = {"seed": tag, "dir": d}
    env = dict(os.environ, PYTHONPATH=work)
    if not a.skip_confirm and os.path.exists(demo):
        r = subprocess.run(["/venv/bin/python", demo], cwd=work, env=env, capture_output=True,
                           text=True, timeout=600)
        res["demo_clean_rc"] = r.returncode
    r = sh(f"cd {work} && patch -p1 --no-backup-if-mismatch < {patch}")
    res["patch_applied"] = r.returncode == 0
    if r.returncode != 0:
        res["patch_err"] = (r.stdout + r.stderr)[-500:]
        print(json.dumps(res))
        shutil.rmtree(work, ignore_errors=True)
        return 2
    if not a.skip_confirm:
        if os.path.exists(demo):
            r = subprocess.run(["/venv/bin/python", demo], cwd=work, env=env, capture_output=True,
                               text=True, timeout=600)
            res["demo_changed_rc"] = r.returncode
            res["demo_changed_tail"] = (r.stdout + r.stderr)[-300:]
        t = sh(f"cd {work} && /venv/bin/python -m pytest -q -p no:cacheprovider --timeout=300 2>&1 | tail -1",
               timeout=1800)
        res["tests"] = t.stdout.strip()
        res["tests_pass"] = " passed" in t.stdout and "failed" not in t.stdout and "error" not in t.stdout
    fired = {}
    cenv = dict(os.environ, VMON_REPO=work, VERIF_SEED=a.seed)
    for c in [x for x in a.checks.split(",") if x]:
        t0 = time.time()
        r = subprocess.run([os.path.join(HERE, "check"), c, a.tier], capture_output=True, text=True,
                           env=cenv, timeout=4 * 3600)
        keys = [l.split("key=")[1].split()[0] for l in r.stdout.splitlines()
                if l.startswith("VIOLATION") and "key=" in l]
        fired[c] = {"rc": r.returncode, "keys": keys[:5], "s": round(time.time() - t0)}
        if r.returncode == 2:
            fired[c]["why"] = [l for l in r.stdout.splitlines() if l.startswith("INCONCLUSIVE")][:2]
    res["caught_by"] = [c for c, v in fired.items() if v["rc"] == 1]
    res["inconclusive"] = [c for c, v in fired.items() if v["rc"] == 2]
    res["detail"] = {c: v for c, v in fired.items() if v["rc"] != 0}
    res["tier"] = a.tier
    shutil.rmtree(work, ignore_errors=True)
    print(json.dumps(res))
    return 0


if __name__ == "__main__":
    sys.exit(main())
