#!/bin/sh
# tools/seedown.sh [tier] [parallel] [ids...] : run each seeded change against the check of ITS OWN property
# (4 at a time, 4 worker processes each); writes seeded/<id>/own.json and prints one line per change.
cd "$(dirname "$0")/.." || exit 3
tier=${1:-quick}; par=${2:-4}
[ $# -ge 2 ] && shift 2 || shift $#
ids="$@"
[ -z "$ids" ] && ids=$(ls seeded)
for id in $ids; do echo $id; done | xargs -P $par -I{} sh -c "
  id={}; tier=$tier
  prop=\$(python3 -c \"import json;print(json.load(open('seeded/{}/meta.json'))['property'])\")
  VMON_JOBS=4 python3 tools/seedrun.py seeded/{} --tier $tier --checks \$prop --skip-confirm > seeded/{}/own.json 2>/dev/null
  python3 -c \"
import json
r=json.load(open('seeded/{}/own.json'))
print('{}', 'CAUGHT' if r.get('caught_by') else ('INC' if r.get('inconclusive') else 'MISSED'), json.dumps(r.get('detail'))[:300])\"
"
