#!/bin/sh
# tools/seedfull.sh <tier> <parallel> <ids...> : every check against the given seeded changes (result.json per change)
cd "$(dirname "$0")/.." || exit 3
tier=${1:-quick}; par=${2:-3}; shift 2
for id in "$@"; do echo $id; done | xargs -P $par -I{} sh -c "
  VMON_JOBS=5 python3 tools/seedrun.py seeded/{} --tier $tier --skip-confirm > seeded/{}/result.json 2>/dev/null
  python3 -c \"
import json
r=json.load(open('seeded/{}/result.json'))
print('{}', 'CAUGHT', r.get('caught_by'), 'INC', r.get('inconclusive'))\"
"
