#!/bin/sh
# tools/seedimport.sh <id> <round> <hint text> : copy /tmp/wt/<id>/_seed into seeded/<id>, confirm it
# (demo passes on a clean copy, fails with the change, repository tests pass), write meta.json,
# remove the scratch worktree.
cd "$(dirname "$0")/.." || exit 3
id=$1; rd=$2; hint=$3
wt=/tmp/wt/$id
[ -f $wt/_seed/patch.diff ] || { echo "no patch in $wt/_seed"; exit 2; }
mkdir -p seeded/$id
cp $wt/_seed/patch.diff $wt/_seed/demo.py seeded/$id/
[ -f $wt/_seed/README.md ] && cp $wt/_seed/README.md seeded/$id/
prop=$(echo $id | cut -d- -f1)
python3 tools/seedrun.py seeded/$id --checks "" > /tmp/seedimport_$id.json 2>/dev/null
python3 - "$id" "$prop" "$rd" "$hint" <<'PY'
import json,sys
id_,prop,rd,hint=sys.argv[1:5]
r=json.load(open(f'/tmp/seedimport_{id_}.json'))
ok = r.get('demo_clean_rc')==0 and r.get('demo_changed_rc') not in (0,None) and r.get('tests_pass')
print(id_, 'CONFIRMED' if ok else 'NOT CONFIRMED', {k:r.get(k) for k in ('demo_clean_rc','demo_changed_rc','tests','patch_applied')})
meta={"id":id_,"property":prop,"round":int(rd),
 "origin":"independent sub-agent given only the property text, a scratch worktree and the hint: "+hint,
 "needs_to_manifest":"see README.md (written by the sub-agent)",
 "confirmed":("tools/seedrun.py: demo.py exits 0 on a clean copy of /repo, non-zero with patch.diff applied; repository tests (82) pass with the patch" if ok else "NOT CONFIRMED: "+json.dumps(r)[:400]),
 "first_contact":"","strengthening":""}
json.dump(meta,open(f'seeded/{id_}/meta.json','w'),indent=1)
PY
rm -f /tmp/seedimport_$id.json
git -C /repo worktree remove --force $wt 2>/dev/null; rm -rf $wt
