#!/bin/sh
# tools/seedmatrix.sh [tier] [ids...] : run every check against every seeded change, write seeded/<id>/result.json
cd "$(dirname "$0")/.." || exit 3
tier=${1:-quick}; shift
ids="$@"
[ -z "$ids" ] && ids=$(ls seeded)
for id in $ids; do
  [ -f seeded/$id/patch.diff ] || continue
  python3 tools/seedrun.py seeded/$id --tier $tier > seeded/$id/result.json 2>/dev/null
  python3 -c "
import json,sys
r=json.load(open('seeded/$id/result.json'))
print('$id', 'demo', r.get('demo_clean_rc'), r.get('demo_changed_rc'), 'tests', r.get('tests_pass'), 'CAUGHT', r.get('caught_by'), 'INC', r.get('inconclusive'))"
done
