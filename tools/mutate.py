#!/usr/bin/env python3
"""Mutation runs (DESIGN section 8): apply small realistic changes to a scratch
copy of /repo (never to /repo), check that the repository's own tests still
pass, then run the quick checks against the copy (VMON_REPO) and report which
fire.

usage: tools/mutate.py [mutant-name ...]     (default: all)
Scratch copies live under /root/scratch/mut and are removed after each mutant.
"""
import json
import os
import shutil
import subprocess
import sys
import time

HERE = os.path.dirname(os.path.dirname(os.path.abspath(__file__)))
SCRATCH = "/root/scratch/mut"
T = "numba_scfg/core/transformations.py"
S = "numba_scfg/core/datastructures/scfg.py"
B = "numba_scfg/core/datastructures/basic_block.py"
A = "numba_scfg/core/datastructures/ast_transforms.py"
R = "numba_scfg/rendering/rendering.py"
F = "numba_scfg/core/datastructures/flow_info.py"
U = "numba_scfg/core/utils.py"

# name -> (file, old, new, expected checks)
MUTANTS = {
    "swap_backedge_table": (T, "i: j for i, j in enumerate((loop_head, synth_exit))",
                            "i: j for i, j in enumerate((synth_exit, loop_head))", ["C01"]),
    "drop_exit_assign_rewire": (T, """                    scfg.add_block(synth_assign_block)
                    # Insert the new block into the new jump_targets making
                    # sure, that it replaces the correct jump_target, order
                    # matters in this case.
                    new_jt[new_jt.index(jt)] = synth_assign""",
                                """                    scfg.add_block(synth_assign_block)""", ["C01", "C06"]),
    "update_exiting_uses_property": (T, "    jt = list(region_exiting_block._jump_targets)\n    for idx, s in enumerate(jt):",
                                     "    jt = list(region_exiting_block.jump_targets)\n    for idx, s in enumerate(jt):", ["C01", "C04"]),
    "skip_declare_backedge": (T, "scfg.graph.pop(backedge_blocks[0]).declare_backedge(loop_head)",
                              "scfg.graph.pop(backedge_blocks[0])", ["C03"]),
    "unsorted_loop_iteration": (T, "    for name in sorted(loop):", "    for name in loop:", ["C12"]),
    "unsorted_headers": (S, "        return sorted(headers), sorted(entries)",
                         "        return list(headers), list(entries)", ["C12", "C13"]),
    "unsorted_exits": (S, "        return sorted(exiting), sorted(exits)",
                       "        return list(exiting), list(exits)", ["C12", "C13"]),
    "unsorted_control_arcs": (S, "            for s in sorted(\n                set(block.jump_targets).intersection(successors)\n            ):",
                              "            for s in (\n                set(block.jump_targets).intersection(successors)\n            ):", ["C12"]),
    "unsorted_region_blocks": (T, "{name: scfg.graph[name] for name in sorted(region_blocks)}",
                               "{name: scfg.graph[name] for name in region_blocks}", ["C12"]),
    "reachable_seen_begin": (S, "        seen = set()\n        to_vist = list(self.graph[begin].jump_targets)",
                             "        seen = {begin}\n        to_vist = list(self.graph[begin].jump_targets)", ["C13"]),
    "exiting_forgets_returns": (S, "            if self.graph[inside].is_exiting:\n                exiting.add(inside)",
                                "            if False:\n                exiting.add(inside)", ["C13"]),
    "prune_empty_one_arm": (A, "                        if b.jump_targets[1] == name:\n                            b.jump_targets[1] = it",
                            "                        elif b.jump_targets[1] == name:\n                            b.jump_targets[1] = it", ["C07", "C08"]),
    "fill_emits_nothing": (A, "            return [ast.Pass()]", "            return []", ["C07", "C10"]),
    "to_dict_drops_backedges": (S, "            backedges[key] = [i for i in value.backedges]",
                                "            backedges[key] = []", ["C15"]),
    "render_edge_to_exiting": (R, "                block = blocks[block.header]  # type: ignore",
                               "                block = blocks[block.exiting]  # type: ignore", ["C17"]),
    "namegen_per_subgraph": (T, "        name_gen=scfg.name_gen,\n    )\n\n    # For all entries",
                             "    )\n\n    # For all entries", ["C18", "C04"]),
    "iter_skips_region_targets": (S, "            to_visit.extend(block.jump_targets)\n\n    @property",
                                  "            if type(block) != RegionBlock:\n                to_visit.extend(block.jump_targets)\n\n    @property", ["C16"]),
    "insert_block_keeps_order_wrong": (S, "                            jt[jt.index(s)] = new_name\n                        else:\n                            jt.pop(jt.index(s))\n            else:\n                jt.append(new_name)\n            # The jump targets of a region",
                                       "                            jt[jt.index(s)] = new_name\n                            jt.reverse()\n                        else:\n                            jt.pop(jt.index(s))\n            else:\n                jt.append(new_name)\n            # The jump targets of a region", ["C14", "C05"]),
    "flowinfo_fallthrough_last": (F, "(_next_inst_offset(inst.offset), inst.argval)",
                                  "(inst.argval, _next_inst_offset(inst.offset))", ["C09"]),
    "payload_dropped": (S, "            self.add_block(block.replace_jump_targets(jump_targets=tuple(jt)))",
                        "            self.add_block(type(block)(name=block.name, _jump_targets=tuple(jt), backedges=block.backedges) if type(block).__name__ == 'PythonBytecodeBlock' else block.replace_jump_targets(jump_targets=tuple(jt)))", ["C05"]),
    "with_statement_ignored": (A, "        elif isinstance(node, ast.If):\n            self.handle_if(node)",
                               "        elif isinstance(node, ast.With):\n            self.codegen(node.body)\n        elif isinstance(node, ast.If):\n            self.handle_if(node)", ["C11"]),
    "exit_var_minus_one_observable": (T, "            return -1", "            return 0", []),
}

CHECKS = ["C01", "C02", "C03", "C04", "C05", "C06", "C07", "C08", "C09", "C10", "C11", "C12",
          "C13", "C14", "C15", "C16", "C17", "C18"]


def sh(cmd, **kw):
    return subprocess.run(cmd, shell=True, capture_output=True, text=True, **kw)


def run_mutant(name, spec, checks):
    path, old, new, expected = spec
    d = os.path.join(SCRATCH, name)
    shutil.rmtree(d, ignore_errors=True)
    os.makedirs(SCRATCH, exist_ok=True)
    sh(f"git -C /repo worktree prune")
    shutil.copytree("/repo", d, ignore=shutil.ignore_patterns(".git", "__pycache__", "*.egg-info"))
    fp = os.path.join(d, path)
    src = open(fp).read()
    if src.count(old) < 1:
        shutil.rmtree(d, ignore_errors=True)
        return {"name": name, "error": "pattern not found"}
    open(fp, "w").write(src.replace(old, new, 1))
    t = sh(f"cd {d} && /venv/bin/python -m pytest -q -x -p no:cacheprovider --timeout=60 2>&1 | tail -1", timeout=900)
    tests_pass = " passed" in t.stdout and "failed" not in t.stdout
    fired = {}
    env = dict(os.environ, VMON_REPO=d)
    for c in checks:
        t0 = time.time()
        r = subprocess.run([os.path.join(HERE, "check"), c, "quick"], capture_output=True, text=True,
                           env=env, timeout=3600)
        out = r.stdout
        keys = [l.split("key=")[1].split()[0] for l in out.splitlines() if l.startswith("VIOLATION") and "key=" in l]
        fired[c] = {"rc": r.returncode, "keys": keys[:4], "s": round(time.time() - t0)}
    shutil.rmtree(d, ignore_errors=True)
    caught = [c for c, v in fired.items() if v["rc"] == 1]
    return {"name": name, "tests_pass": tests_pass, "caught_by": caught,
            "inconclusive": [c for c, v in fired.items() if v["rc"] == 2],
            "expected": expected, "detail": {c: v for c, v in fired.items() if v["rc"] != 0}}


def main():
    names = sys.argv[1:] or list(MUTANTS)
    checks = os.environ.get("MUT_CHECKS", "").split(",") if os.environ.get("MUT_CHECKS") else CHECKS
    out = []
    for n in names:
        r = run_mutant(n, MUTANTS[n], checks)
        out.append(r)
        print(json.dumps(r), flush=True)
    os.makedirs(os.path.join(HERE, "out"), exist_ok=True)
    with open(os.path.join(HERE, "out", "mutation_report.json"), "w") as f:
        json.dump(out, f, indent=1)


if __name__ == "__main__":
    main()
