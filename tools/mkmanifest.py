#!/usr/bin/env python3
"""Regenerate /verif/MANIFEST.json from the table below (kept in one place so
that the manifest is always schema-valid)."""
import json
import os

HERE = os.path.dirname(os.path.dirname(os.path.abspath(__file__)))

CHECKS = {
    "C01": dict(
        cat="translation_validation",
        technique="runtime stage monitor + per-output product exploration (reference model = input graph), two independent walkers",
        text="Every execution of restructuring on the workload is validated after each stage: the "
             "monitor explores the product of the input graph with the produced hierarchy and the "
             "control-variable valuation to a fixed point, once by names and once region by region. "
             "Exhaustive over paths of each observed output, sampled over inputs (all closed CFGs "
             "n<=4/5, generated classes, stdlib CFGs). Held on K executions, not a proof of the "
             "transformation.",
        ref="10/C01",
        note="trusted: the two walkers (independent code paths, cross-checked), the generators' "
             "closed-CFG assertion, CPython 3.12.1",
    ),
    "C02": dict(
        cat="exploration",
        technique="runtime stage monitor recording exceptions + Python-call budget (sys.monitoring)",
        text="All 89 656 closed CFGs with n<=5 plus generated and real-world CFGs are pushed "
             "through the three stages under a monitor that records any escaping exception and "
             "enforces a call budget as bounded progress. The n<=5 part is exhaustive; the rest "
             "is sampled.",
        ref="10/C02",
        note="termination is restated as a budget of 200 n^2 + 10^5 Python calls (re-run at 10x "
             "before reporting)",
    ),
    "C03": dict(
        cat="exploration",
        technique="invariant walker at the quiescent point after the pipeline",
        text="After the full pipeline the structuredness invariant is checked at every level of "
             "every produced hierarchy.",
        ref="10/C03",
        note="trusted: the walker; inputs as C02",
    ),
    "C04": dict(
        cat="exploration",
        technique="invariant walker after every stage + region-by-region walker enforcing enter-at-header/leave-from-exiting",
        text="After every stage the hierarchy invariants are checked statically on the produced "
             "object graph and dynamically by the region walker of C01.",
        ref="10/C04",
        note="identity of RegionBlock copies deliberately not required (dataclasses.replace)",
    ),
    "C05": dict(
        cat="exploration",
        technique="conservation monitor (input blocks vs original leaves) after every stage",
        text="Multiset/payload/arity conservation of input blocks checked after every stage on "
             "plain, bytecode-range and AST payload graphs.",
        ref="10/C05",
        note="payload compared by identity or equality of fields",
    ),
    "C06": dict(
        cat="exploration",
        technique="table contract on replace_jump_targets + exact path-sensitive exploration per output",
        text="Per produced hierarchy an exact exploration of (leaf, live valuation, stale latches) "
             "covers all feasible paths of that output; table/successor agreement is a contract on "
             "every table rewrite and an invariant after every stage.",
        ref="10/C06",
        note="must-assigned data-flow analysis is a verdict only after the loop stage (imprecise after branch stage by design)",
    ),
    "C09": dict(
        cat="exploration",
        technique="post-condition of ByteFlow.from_bytecode against dis/opcode ground truth + instruction-trace conformance of executed functions (sys.monitoring / settrace), two interpreter versions",
        text="Every eligible stdlib function of 3.12 and 3.11 is converted by the real front end and "
             "the result checked against the running interpreter's own instruction metadata; "
             "generated functions are executed under instruction-level tracing and every observed "
             "control transfer must be an edge of the built graph.",
        ref="10/C09",
        note="ground truth = dis + opcode.hasjrel/hasjabs + short name lists (A.10), cross-checked by the trace monitor",
    ),
    "C13": dict(
        cat="exploration",
        technique="contracts on the query functions against brute-force references (M-query), exhaustive small digraphs + in-pipeline calls",
        text="Every call of the queries - direct on all digraphs of a small scope and all calls made "
             "by restructuring on the C01 graph classes - is compared with a brute-force reference "
             "of the set/path definition.",
        ref="10/C13",
        note="small scope enumerated completely (sub-counts in evidence); references are the trusted base",
    ),
    "C14": dict(
        cat="exploration",
        technique="icontract snapshot/ensure contracts on the edit primitives (M-edit), random edit histories + in-pipeline calls, product walker after path-preserving edits",
        text="Each edit call is checked against its pre-state snapshot by a recording contract; "
             "random histories exercise region / branching / back-edge predecessors and all |P|,|S| "
             "shapes; the walker of C01 re-validates paths after every path-preserving edit.",
        ref="10/C14",
        note="collapse vs. keep of repeated occurrences left open as in the statement",
    ),
    "C16": dict(
        cat="exploration",
        technique="recorded iteration sequences (M-iter generator wrapper + quiescent-point calls) vs graph-dict walk",
        text="The real iterators are run before and after every stage on every level and their "
             "yielded sequences compared with an independent walk (exactly-once, head first, "
             "predecessor-before-successor).",
        ref="10/C16",
        note="inputs as C02 (all closed CFGs n<=5 included)",
    ),
    "C17": dict(
        cat="exploration",
        technique="census of the emitted DOT source (own tokenizer) vs hierarchy, cross-checked by a graphviz call log (M-gv)",
        text="The real renderers run before and after every stage; the DOT text is parsed and "
             "nodes, cluster nesting, solid/dashed edge multisets and label contents compared with "
             "the hierarchy.",
        ref="10/C17",
        note="no viewer/PDF; DOT reader validated against the recorded graphviz calls on every case",
    ),
    "C15": dict(
        cat="exploration",
        technique="write-read(-write-read) histories through the real to_dict/to_yaml/from_dict/from_yaml at every quiescent point, compared by a harness-owned structural equality",
        text="The flat input and the hierarchy after every stage are serialised and re-read through "
             "both formats; the re-read graph must be structurally equal and re-serialise to the "
             "same dictionary (chains of up to 3 rounds).",
        ref="10/C15",
        note="AST-payload graphs are outside the statement's enumeration; names as front ends and generator produce them",
    ),
    "C07": dict(
        cat="translation_validation",
        technique="differential execution of original vs regenerated function under CPython with unique-id call logs and enumerated decision tapes; pipeline exception recorder; mechanism flags of known findings read off the source and the reference run",
        text="Every generated program that the real pipeline accepts is validated against its "
             "input: same return repr / exception type / ordered external-call log on 3 argument "
             "tuples x all decision tapes the original consumes up to a bound; refusals are counted, "
             "internal errors and non-compiling output are violations; stdlib functions give "
             "crash/compile evidence.",
        ref="10/C07",
        note="CPython is the reference model; known findings (D8, D9, shadowed builtins) are keyed by mechanism witnessed in the trace",
    ),
    "C08": dict(
        cat="translation_validation",
        technique="block-level reference interpreter of the front-end graph vs CPython (same tapes/logs) + exactly-once statement census with independent reachability analysis",
        text="The graph the real front end builds from each program is interpreted block by block "
             "exactly as the statement prescribes and compared with CPython over enumerated "
             "decision tapes; a census checks every stamped statement lands in exactly one block "
             "and only dead code / no-ops are pruned.",
        ref="10/C08",
        note="interpreter and reachability analysis are the trusted base; NameError family merged",
    ),
    "C10": dict(
        cat="exploration",
        technique="exactly-once census of stamped AST nodes in the emitted FunctionDef + codegen call counter (M-s2a) + compile + binding hygiene",
        text="Static census of every FunctionDef the real back end returns, on source-derived "
             "graphs and on generated graphs with AST payloads that no source produces.",
        ref="10/C10",
        note="no execution: covers unexercised paths; reads of builtins recorded, charged dynamically in C07",
    ),
    "C11": dict(
        cat="exploration",
        technique="exception-type monitor over a completely enumerated finite space (statement classes x positions x carriers), dispatch confirmed by M-a2s",
        text="All unsupported ast.stmt classes of the running interpreter at nine structural "
             "positions in three carriers, at the end of every nesting path over if/else/while/"
             "while-else/for/for-else suites up to depth 3 (quick) / 5 (thorough), plus non-function "
             "inputs; these spaces are enumerated completely (exhaustive: true); deeper paths sampled.",
        ref="10/C11",
        note="future statement classes without a template make the run inconclusive",
    ),
    "C12": dict(
        cat="exploration",
        technique="offline comparison of per-case digests recorded by separate worker processes under different PYTHONHASHSEED values",
        text="Same cases, k processes with different hash seeds; canonical insertion-order-"
             "sensitive dumps after every stage, of both front ends and of the regenerated source "
             "must be identical.",
        ref="10/C12",
        note="k=4 quick / 24 thorough; long random names maximise set-order churn",
    ),
    "C18": dict(
        cat="exploration",
        technique="name hand-out history recorder with online freshness check against all graphs sharing the generator (M-names), add_block clobber monitor",
        text="Random request histories, graphs named inside the generator namespace, and stage "
             "pipelines interleaved with dict/YAML reloads run under the monitor; every handed-out "
             "name must be new for the generator and absent from every registered graph.",
        ref="10/C18",
        note="'present' = key of a registered graph, region name of such a graph, or control variable in use",
    ),
}

NOT_APPLICABLE = {}


FAULTS = {
    "whole": "; fault histories: the same case and a sibling graph on the same block names first aborted by injected exceptions at random library calls (M-fault, sys.monitoring failpoints), stages called out of turn, refuse/mend/retry on the same object, stages repeated on the same object where the oracle holds for that",
    "edit": "; fault histories: edits refused half-way (unknown predecessor) followed by the hierarchy walker and more edits on the same object, injected failpoints (M-fault)",
    "op": "; fault histories: one operation on graph A aborted by an injected exception or refused by the library, the same operation on graph B checked next (M-fault)",
    "prog": "; fault histories: conversions of the same source aborted by injected exceptions (first one before any conversion of it completed) precede the checked run (M-fault)",
}
FAULT_KIND = {"C01": "whole", "C02": "whole", "C03": "whole", "C04": "whole+edit", "C05": "whole+edit",
              "C06": "whole+edit", "C07": "prog", "C08": "prog", "C09": "prog", "C10": "prog",
              "C12": "edit", "C13": "edit", "C14": "whole+edit", "C15": "whole+op", "C16": "whole+edit+op",
              "C17": "whole+op", "C18": "whole"}


def main():
    kf = os.path.join(HERE, "known_findings.txt")
    checks = []
    for pid in sorted(CHECKS):
        c = dict(CHECKS[pid])
        for fk in FAULT_KIND.get(pid, "").split("+"):
            if fk:
                c["technique"] = c["technique"] + FAULTS[fk]
        checks.append({
            "property_id": pid,
            "quick_cmd": f"./check {pid} quick",
            "thorough_cmd": f"./check {pid} thorough",
            "evidence_file": f"evidence/{pid}.json",
            "replay_cmd_template": f"./check {pid} --replay {{path}}",
            "engine": "vmon",
            "level_claimed": {"category": c["cat"], "text": c["text"],
                              "design_ref": "DESIGN.md section " + c["ref"]},
            "level_note": c["note"],
            "technique": c["technique"],
        })
    props = [json.loads(l)["id"] for l in open(os.path.join(HERE, "properties.jsonl"))]
    na = []
    for pid in props:
        if pid not in CHECKS:
            na.append({"property_id": pid,
                       "reason": NOT_APPLICABLE.get(pid, "check not built yet in this round (runtime monitoring applies; see DESIGN.md section 10)")})
    m = {
        "version": 1,
        "setup_cmd": "/venv/bin/python -m pip install --quiet --no-index --find-links /opt/veriftools/wheels --target /verif/.deps icontract || true",
        "hooks": {
            "guard": "NUMBA_SCFG_VERIF",
            "enable": "workers run with NUMBA_SCFG_VERIF=1; vmon.attach.install() then rebinds "
                      "attributes of numba_scfg at run time (no source hook in /repo); with the "
                      "variable unset install() is a no-op",
            "baseline_off_cmd": "cd /repo && /venv/bin/python -m pytest -ra -q -p no:cacheprovider --timeout=900 --continue-on-collection-errors",
            "source_commits": [],
            "add_only": True,
        },
        "engines": [{
            "name": "vmon",
            "path": "vmon/",
            "serves_properties": sorted(CHECKS),
            "kind_free_text": "runtime monitors (stage hooks, contracts, recorders) attached to the real "
                              "library + oracles over what they observe; workloads in vmon/workloads; every fourth worker shard runs with the library's DEBUG log records formatted (process configuration as a workload dimension), every worker under an address-space limit",
        }],
        "checks": checks,
        "not_applicable": na,
        "notes": "All checks: ./check <ID> quick|thorough [--replay PATH]; exit 0 held / 1 violation / 2 "
                 "inconclusive. known_findings.txt lists known and fixed findings. Fixes to /repo are the "
                 "'fix:' commits on top of the pinned snapshot.",
    }
    with open(os.path.join(HERE, "MANIFEST.json"), "w") as f:
        json.dump(m, f, indent=1)
        f.write("\n")


if __name__ == "__main__":
    main()
