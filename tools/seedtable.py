#!/usr/bin/env python3
"""Regenerate the seeded-change table of DESIGN.md section 0.5 from
seeded/<id>/meta.json (+ own.json / result.json when a matrix run left them).

usage: tools/seedtable.py [--write]   (without --write: print the table)
The table lives between the markers <!-- SEEDED_TABLE_BEGIN --> and
<!-- SEEDED_TABLE_END --> in DESIGN.md.
"""
import json
import os
import re
import sys

HERE = os.path.dirname(os.path.dirname(os.path.abspath(__file__)))


def first_line(readme):
    try:
        with open(readme) as f:
            for l in f:
                l = l.strip()
                if l.startswith("#"):
                    return re.sub(r"^#+\s*", "", l)[:110]
    except OSError:
        pass
    return ""


def rows():
    out = []
    sd = os.path.join(HERE, "seeded")
    for d in sorted(os.listdir(sd)):
        mp = os.path.join(sd, d, "meta.json")
        if not os.path.exists(mp):
            continue
        m = json.load(open(mp))
        caught = m.get("caught_by")
        for fn in ("own.json", "result.json"):
            p = os.path.join(sd, d, fn)
            if caught is None and os.path.exists(p):
                try:
                    r = json.load(open(p))
                    caught = r.get("caught_by")
                except Exception:
                    pass
        out.append({
            "id": m["id"], "prop": m["property"], "round": m.get("round", 1),
            "what": m.get("what") or first_line(os.path.join(sd, d, "README.md")),
            "first": m.get("first_contact", ""), "now": ",".join(caught or []) or "-",
            "keys": "; ".join(m.get("keys", [])[:3]),
            "strength": m.get("strengthening", ""),
        })
    return out


def table():
    rs = rows()
    L = ["| id | rd | change (sub-agent's title) | first contact | caught now by | strengthening it caused |",
         "|---|---|---|---|---|---|"]
    for r in rs:
        L.append("| {id} | {round} | {what} | {first} | {now} | {strength} |".format(
            **{k: str(v).replace("|", "/").replace("\n", " ") for k, v in r.items()}))
    n = len(rs)
    first_caught = sum(1 for r in rs if r["first"].startswith("caught"))
    now_caught = sum(1 for r in rs if r["now"] != "-")
    L.append("")
    L.append(f"{n} confirmed changes; {first_caught} were caught at first contact (before any "
             f"strengthening), {now_caught} are caught by the current checks (`caught now by` = the "
             f"checks of the last matrix run that exited 1 on a copy of `/repo` with the change).")
    return "\n".join(L)


def main():
    t = table()
    if "--write" not in sys.argv:
        print(t)
        return
    p = os.path.join(HERE, "DESIGN.md")
    s = open(p).read()
    b, e = "<!-- SEEDED_TABLE_BEGIN -->", "<!-- SEEDED_TABLE_END -->"
    if b not in s:
        s = s.replace("SEEDED_TABLE_PLACEHOLDER", b + "\n" + e)
    s = re.sub(re.escape(b) + r".*?" + re.escape(e), lambda _m: b + "\n" + t + "\n" + e, s, flags=re.S)
    open(p, "w").write(s)


if __name__ == "__main__":
    main()
