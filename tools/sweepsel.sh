#!/bin/sh
# tools/sweepsel.sh <tier> <seed> <check ids...> : run the given checks in the given order
tier=$1; seed=$2; shift 2
cd "$(dirname "$0")/.." || exit 3
mkdir -p out
for c in "$@"; do
  VERIF_SEED=$seed ./check $c $tier > out/sweep_${c}_${seed}.log 2>&1
  rc=$?
  echo "seed=$seed $c rc=$rc $(tail -1 out/sweep_${c}_${seed}.log | cut -c1-160)"
  if [ $rc -ne 0 ]; then grep -E "VIOLATION|INCONCLUSIVE" out/sweep_${c}_${seed}.log | head -5 | cut -c1-300; fi
done
