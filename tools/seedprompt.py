#!/usr/bin/env python3
"""tools/seedprompt.py <property id> <suffix> <hint key> : create the scratch worktree
/tmp/wt/<id>-<suffix> of /repo and print the prompt for an independent sub-agent.

The prompt contains ONLY the text of the property (title, statement, anchor
files) and the path of the worktree - nothing from /verif."""
import json
import os
import subprocess
import sys

HERE = os.path.dirname(os.path.dirname(os.path.abspath(__file__)))

HINTS = {
    "input": "an UNUSUAL INPUT: the change must be invisible on ordinary inputs and only manifest for an "
             "input with a specific, rarely met shape (a particular size or threshold, a particular naming "
             "pattern, a particular nesting or combination of features, a boundary value)",
    "fault": "a FAULT AT A PARTICULAR POINT: the change must only manifest after an exception, refusal or "
             "early return happened earlier at one specific point (for example state that is not restored "
             "when a call raises or refuses, a half-applied update that a later call on the same or another "
             "object then trips over, a clean-up that is skipped on one exit path)",
    "sequence": "a MULTI-STEP SEQUENCE of public operations on the same objects (or in the same process): "
                "every single call on a fresh object behaves, only a particular order or repetition of "
                "calls exposes the change",
    "twosites": "TWO COOPERATING SITES: two edits in different functions (or files) that each look fine and "
                "are harmless alone, and only together break the property",
    "hardest": "A TRIGGER OF YOUR OWN CHOICE: assume the change will be hunted by a thorough randomized harness "
               "that already drives the library with many random and exhaustively enumerated inputs, reloads "
               "graphs between stages, repeats calls on the same objects, injects faults at random points, runs "
               "refused calls and retries, and compares processes under different hash seeds. Pick whichever "
               "kind of specific condition (a rare input shape, a particular history of public calls, a fault "
               "at one point, a size or depth threshold, two cooperating edits, state kept in the process) you "
               "judge such a harness is LEAST likely to exercise, make the change depend on it, and say in the "
               "README why you think it would be missed",
    "deep": "DEPTH OR SIZE: the change must be invisible on the small inputs people test with and only "
            "manifest when something is nested deeply enough, large enough or repeated often enough "
            "(third level of nesting, the 10th generated name, more than N blocks/successors/arms ...)",
}


def main():
    pid, suffix, hint = sys.argv[1:4]
    props = {}
    for line in open(os.path.join(HERE, "properties.jsonl")):
        p = json.loads(line)
        props[p["id"]] = p
    p = props[pid]
    wt = f"/tmp/wt/{pid}-{suffix}"
    if not os.path.isdir(wt):
        os.makedirs("/tmp/wt", exist_ok=True)
        subprocess.run(["git", "-C", "/repo", "worktree", "add", "--detach", wt, "HEAD"],
                       check=True, capture_output=True)
    files = ", ".join(p.get("anchor", {}).get("files", []) or p.get("anchors", {}).get("files", []))
    stmt = p["statement"]
    q = p.get("quantifier", {})
    if q.get("text"):
        stmt += "\nQuantified over: " + q["text"].replace("see DESIGN section 9", "by definition")
    print(f"""You are helping to evaluate a verification harness for the Python library numba-scfg (numba/numba-rvsdg): a pure-Python library that builds control-flow graphs from Python bytecode/AST, restructures loops and branches (Bahmann 2015) and regenerates Python AST. Your job is to write ONE realistic regression: a change to the library that breaks the property below while the package still imports and the existing test suite still passes.

Your private scratch git worktree of the library is at {wt} (work ONLY there; never touch /repo or /verif, do not read anything under /verif). Run Python as `cd {wt} && PYTHONPATH={wt} /venv/bin/python ...` and the tests as `cd {wt} && /venv/bin/python -m pytest -q -p no:cacheprovider --timeout=600` (82 tests, all must still pass with your change). There is no network.

THE PROPERTY ({pid}: {p.get('title')})
{stmt}
(Most relevant files: {files})

WHAT TO PRODUCE
1. A change to the library source under {wt}/numba_scfg (not to its tests) that makes the property false for some inputs/histories. It must look like something a maintainer could plausibly commit (a refactoring, a "performance shortcut", a tidy-up, a bug fix of something else) - not sabotage, no dead giveaways, no special-casing of magic values, no randomness, no environment checks.
2. The change must need something specific to manifest, not something ordinary use would expose at once. For this task the specific thing is {HINTS[hint]}. On everyday inputs (those of the test suite and the obvious smoke test) the library must behave exactly as before.
3. A demonstration `demo.py` (stand-alone, only imports numba_scfg and the standard library, runs in well under a minute) that exits 0 when the property holds and exits non-zero (printing a short explanation) when it is violated. It must exit 0 on the unchanged library and non-zero with your change. The demonstration must check the PROPERTY as stated (observable behaviour through the public API), not the presence of your edit.
4. Verify all of this yourself: run demo.py with your change (must fail), save and remove the change with `git diff > /tmp/<your id>.diff; git checkout -- numba_scfg` and run it again (must pass), re-apply it with `git apply /tmp/<your id>.diff` (NEVER use `git stash`: the stash is shared by all worktrees of the repository and other people work in theirs at the same time), and run the full test suite with the change (82 passed).

Read the code first and pick a mechanism that really matters for this property. Prefer subtle semantic slips (wrong order, off-by-one, stale cache or memo, aliasing of a mutable, missed invalidation, a condition that is slightly too wide or too narrow, an update applied at one level of a nested structure but not another) to crashes.

DELIVERABLES - put them in the directory {wt}/_seed/ (create it; it must not be part of the patch):
- {wt}/_seed/patch.diff : output of `git -C {wt} diff -- numba_scfg` with your change applied (unified diff, applies with `patch -p1` / `git apply` at the repository root)
- {wt}/_seed/demo.py
- {wt}/_seed/README.md : title line, what the change is, why it is plausible, exactly what is needed for it to manifest, what you ran and observed.
Leave the worktree with your change applied. In your final answer give a 5-line summary (mechanism, what is needed to manifest, demo result with/without the change, test-suite result).""")


if __name__ == "__main__":
    main()
