#!/bin/sh
# tools/sweep.sh <tier> <seed...>  : run every check of the manifest under the given seeds
tier=$1; shift
cd "$(dirname "$0")/.." || exit 3
mkdir -p out
for seed in "$@"; do
  for c in C01 C02 C03 C04 C05 C06 C07 C08 C09 C10 C11 C12 C13 C14 C15 C16 C17 C18; do
    VERIF_SEED=$seed ./check $c $tier > out/sweep_${c}_${seed}.log 2>&1
    rc=$?
    echo "seed=$seed $c rc=$rc $(tail -1 out/sweep_${c}_${seed}.log | cut -c1-160)"
    if [ $rc -ne 0 ]; then grep -E "VIOLATION|INCONCLUSIVE" out/sweep_${c}_${seed}.log | head -5 | cut -c1-300; fi
  done
done
